"""Self-validation battery: per property, breaking variants that must be caught and
behaviour-preserving variants that must stay silent.  Anchors are normalised syntax (see selftest)."""

NS = "qucumber/nn_states/neural_state.py"
WF = "qucumber/nn_states/wavefunction.py"
PW = "qucumber/nn_states/positive_wavefunction.py"
CW = "qucumber/nn_states/complex_wavefunction.py"
DM = "qucumber/nn_states/density_matrix.py"
BR = "qucumber/rbm/binary_rbm.py"
PR = "qucumber/rbm/purification_rbm.py"
CX = "qucumber/utils/cplx.py"
UN = "qucumber/utils/unitaries.py"
TS = "qucumber/utils/training_statistics.py"
DA = "qucumber/utils/data.py"
GU = "qucumber/utils/gradients_utils.py"
OB = "qucumber/observables/observable.py"
SY = "qucumber/observables/system.py"
OU = "qucumber/observables/utils.py"
PA = "qucumber/observables/pauli.py"
IN = "qucumber/observables/interactions.py"
EN = "qucumber/observables/entanglement.py"
CB = "qucumber/callbacks/"
INIT = "qucumber/__init__.py"


def V(name, file, old, new, expect="caught", nth=0):
    return {"name": name, "file": file, "old": old, "new": new, "expect": expect, "nth": nth}


VARIANTS = {
    "C01": [
        V("drop hidden bias in energy", BR, "F.softplus(F.linear(v, self.weights, self.hidden_bias))", "F.softplus(F.linear(v, self.weights))"),
        V("amplitude without sqrt", WF, "(-self.rbm_am.effective_energy(v)).exp().sqrt()", "(-self.rbm_am.effective_energy(v)).exp()"),
        V("phase from amplitude network", CW, "-0.5 * self.rbm_ph.effective_energy(v)", "-0.5 * self.rbm_am.effective_energy(v)"),
        V("conjugated psi", WF, "amplitude * phase.sin()", "-amplitude * phase.sin()"),
        V("cos/sin swapped", WF, "cplx.make_complex(amplitude * phase.cos(), amplitude * phase.sin())", "cplx.make_complex(amplitude * phase.sin(), amplitude * phase.cos())"),
        V("logsumexp over the wrong axis", BR, "(-self.effective_energy(space)).logsumexp(0)", "(-self.effective_energy(space)).logsumexp(1)"),
        V("exp(+E)", NS, "(-self.rbm_am.effective_energy(v)).exp() / Z", "self.rbm_am.effective_energy(v).exp() / Z"),
        V("phase factor 1 instead of 1/2", CW, "-0.5 * self.rbm_ph.effective_energy(v)", "-self.rbm_ph.effective_energy(v)"),
        V("visible bias dropped", BR, "-(visible_bias_term + hid_bias_term)", "-hid_bias_term"),
        V("equivalent: pow(0.5)", WF, "(-self.rbm_am.effective_energy(v)).exp().sqrt()", "(-self.rbm_am.effective_energy(v)).exp().pow(0.5)", "silent"),
        V("equivalent: -(E/2)", CW, "-0.5 * self.rbm_ph.effective_energy(v)", "-(self.rbm_ph.effective_energy(v) / 2)", "silent"),
        V("equivalent: matmul + bias instead of F.linear", BR, "F.softplus(F.linear(v, self.weights, self.hidden_bias)).sum(-1)", "F.softplus(torch.matmul(v, self.weights.t()) + self.hidden_bias).sum(-1)", "silent"),
        V("equivalent: exp(logsumexp) spelled as sum of exp", BR, "logZ = (-self.effective_energy(space)).logsumexp(0)\nreturn logZ.exp()", "return (-self.effective_energy(space)).exp().sum(0)", "silent"),
    ],
    "C02": [
        V("phase of Pi symmetric", DM, "phase = (m_ph - mp_ph) / 2", "phase = (m_ph + mp_ph) / 2"),
        V("aux bias dropped on the vp side", DM, "mp_am = F.linear(vp, self.rbm_am.weights_U, self.rbm_am.aux_bias)", "mp_am = F.linear(vp, self.rbm_am.weights_U)"),
        V("eta swapped for the phase", DM, "self.rbm_ph.gamma(v, vp, eta=-1, expand=expand)", "self.rbm_ph.gamma(v, vp, eta=+1, expand=expand)"),
        V("gamma expansion transposed", PR, "temp = temp1.unsqueeze_(1) + sign * temp2.unsqueeze_(0)", "temp = temp1.unsqueeze_(0) + sign * temp2.unsqueeze_(1)"),
        V("gamma factor 1/2 dropped", PR, "return 0.5 * temp", "return temp"),
        V("aux bias dropped from Pi", DM, "m_am = F.linear(v, self.rbm_am.weights_U, self.rbm_am.aux_bias)\nmp_am = F.linear(vp, self.rbm_am.weights_U, self.rbm_am.aux_bias)",
          "m_am = F.linear(v, self.rbm_am.weights_U)\nmp_am = F.linear(vp, self.rbm_am.weights_U)"),
        V("Pi built from the phase network's U for the amplitude part", DM, "m_am = F.linear(v, self.rbm_am.weights_U, self.rbm_am.aux_bias)", "m_am = F.linear(v, self.rbm_ph.weights_U, self.rbm_am.aux_bias)"),
        V("purification energy drops aux softplus", PR, "return -(vis_term + aux_term)", "return -vis_term"),
        V("equivalent: 0.5*(a+b)", DM, "exp_arg = (m_am + mp_am) / 2", "exp_arg = 0.5 * (m_am + mp_am)", "silent"),
        V("equivalent: temp / 2", PR, "return 0.5 * temp", "return temp / 2", "silent"),
    ],
    "C03": [
        V("bias segments swapped", BR, "parameters_to_vector([W_grad, vb_grad, hb_grad])", "parameters_to_vector([W_grad, hb_grad, vb_grad])"),
        V("W segment transposed", BR, "W_grad = -torch.matmul(prob.transpose(0, -1), v)", "W_grad = -torch.matmul(v.transpose(0, -1), prob)"),
        V("divide by the number of sites", NS, "gr / float(samples_batch.shape[0])", "gr / float(samples_batch.shape[1])"),
        V("wrong group mask", NS, "self.rotated_gradient(basis, samples[indices == i, :])", "self.rotated_gradient(basis, samples[indices != i, :])"),
        V("phase gradient fed from the amplitude contribution", NS, "grad[1] += sample_grad[1]", "grad[1] += sample_grad[0]"),
        V("exact negative phase added", NS, "grad[0] -= torch.mv(all_grads.t(), probs)", "grad[0] += torch.mv(all_grads.t(), probs)"),
        V("hidden-bias gradient sign", BR, "hb_grad = -torch.sum(prob, 0)", "hb_grad = torch.sum(prob, 0)"),
        V("reference basis literal", NS, "rot_sites = np.where(basis != 'Z')[0]", "rot_sites = np.where(basis != 'X')[0]"),
        V("gamma_grad segments reversed", PR, "vec = [W_grad.view(*batch_sizes, -1), U_grad.view(*batch_sizes, -1), vb_grad, hb_grad, ab_grad]",
          "vec = [W_grad.view(*batch_sizes, -1), U_grad.view(*batch_sizes, -1), vb_grad, hb_grad, ab_grad][::-1]"),
        V("equivalent: len(batch)", NS, "gr / float(samples_batch.shape[0])", "gr / len(samples_batch)", "silent"),
    ],
    "C04": [
        V("Y eigenvector rows swapped", UN, "[[[1.0, 0.0], [1.0, 0.0]], [[0.0, -1.0], [0.0, 1.0]]]", "[[[1.0, 0.0], [1.0, 0.0]], [[0.0, 1.0], [0.0, -1.0]]]"),
        V("factor tensor conjugation swapped", UN, "np.einsum('ib,jb->ijb', Ut, np.conj(Ut))", "np.einsum('ib,jb->ijb', np.conj(Ut), Ut)"),
        V("unitary gathered with input/outcome swapped", UN, "Us[ints_size, :, int_sample, int_vp]", "Us[ints_size, :, int_vp, int_sample]"),
        V("kron sweep first-to-last", UN, "reversed(range(len(n)))", "range(len(n))"),
        V("rotate_rho without transposition", UN, "_kron_mult(us, cplx.conjugate(rho_r))", "_kron_mult(us, cplx.conj(rho_r))"),
        V("reduction over a batch axis", UN, "torch.sum(cplx.real(UrhoU_v), dim=(0, 1))", "torch.sum(cplx.real(UrhoU_v), dim=(0, 2))"),
        V("rotated sites = X only", UN, "sites = np.where(basis != 'Z')[0]", "sites = np.where(basis == 'X')[0]"),
        V("Z is not the identity", UN, "[[[1.0, 0.0], [0.0, 1.0]], [[0.0, 0.0], [0.0, 0.0]]]", "[[[0.0, 1.0], [1.0, 0.0]], [[0.0, 0.0], [0.0, 0.0]]]"),
        V("equivalent: spelled-out einsum letters", UN, "np.einsum('ib,jb->ijb', Ut, np.conj(Ut))", "np.einsum('xb,yb->xyb', Ut, np.conj(Ut))", "silent"),
    ],
    "C05": [
        V("hidden bias dropped from the conditional", BR, "torch.matmul(v, self.weights.data.t(), out=out).add_(self.hidden_bias.data)", "torch.matmul(v, self.weights.data.t(), out=out)"),
        V("visible sampled before hidden", BR, "self.sample_h_given_v(v, out=h)\nself.sample_v_given_h(h, out=v)", "self.sample_v_given_h(h, out=v)\nself.sample_h_given_v(v, out=h)"),
        V("auxiliary layer not resampled", PR, "self.sample_a_given_v(v, out=a)", ""),
        V("k+1 steps", BR, "range(k)", "range(k + 1)"),
        V("always in place", BR, "(initial_state if overwrite else initial_state.clone())", "initial_state"),
        V("never in place", BR, "(initial_state if overwrite else initial_state.clone())", "initial_state.clone()"),
        V("rounding instead of sampling", BR, "v = torch.bernoulli(v, out=out)", "v = torch.round(v, out=out)"),
        V("overwrite flag not forwarded", NS, "self.rbm_am.gibbs_steps(k, initial_state, overwrite=overwrite)", "self.rbm_am.gibbs_steps(k, initial_state)"),
        V("aux conditional uses W", PR, "torch.matmul(v, self.weights_U.data.t(), out=out).add_(self.aux_bias.data)", "torch.matmul(v, self.weights_U.data.t(), out=out).add_(self.hidden_bias.data)"),
        V("equivalent: double transpose", PR, "torch.matmul(a, self.weights_U.data)", "torch.matmul(a, self.weights_U.data.t().t())", "silent"),
        V("equivalent: range(0, k)", BR, "range(k)", "range(0, k)", "silent"),
    ],
    "C06": [
        V("divide by the positive batch size", NS, "grad_model / float(neg_batch.shape[0])", "grad_model / float(samples_batch.shape[0])"),
        V("negative phase added", NS, "grad[0] -= grad_model / float(neg_batch.shape[0])", "grad[0] += grad_model / float(neg_batch.shape[0])"),
        V("always one Gibbs step", NS, "self.rbm_am.gibbs_steps(k, neg_batch)", "self.rbm_am.gibbs_steps(1, neg_batch)"),
        V("model gradient at the chain start", NS, "self.rbm_am.effective_energy_gradient(vk)", "self.rbm_am.effective_energy_gradient(neg_batch)"),
        V("all networks get gradient 0", NS, "vector_to_grads(all_grads[i], rbm.parameters())", "vector_to_grads(all_grads[0], rbm.parameters())"),
        V("scheduler never stepped", NS, "if scheduler is not None:\n    scheduler.step()", "pass", nth=0),
        V("pointer advanced by one", GU, "pointer += num_param", "pointer += 1"),
        V("learning rate ignored", NS, "optimizer(all_params, lr=lr, **optimizer_args)", "optimizer(all_params, lr=0.001, **optimizer_args)"),
        V("gradients cleared before the step", NS, "optimizer.step()", "optimizer.zero_grad()\noptimizer.step()"),
        V("equivalent: no zero_grad (gradients are assigned, not accumulated)", NS, "optimizer.zero_grad()", "", "silent"),
    ],
    "C07": [
        V("bases shuffled independently", NS, "input_bases[pos_batch_perm.numpy()]", "input_bases[torch.randperm(train_samples.shape[0]).numpy()]"),
        V("floor instead of ceil", NS, "ceil(train_samples.shape[0] / pos_batch_size)", "train_samples.shape[0] // pos_batch_size"),
        V("bases tiling one short", NS, "range(0, len(train_samples), pos_batch_size)", "range(0, len(train_samples) - 1, pos_batch_size)"),
        V("z indices drawn over all rows", NS, "z_samples.shape[0]", "train_samples.shape[0]", nth=0),
        V("in-place op on the caller's data", NS, "data.clone().detach().to(device=self.device, dtype=torch.double)", "data.to(device=self.device, dtype=torch.double).mul_(1.0)"),
        V("negatives from all rows although bases given", NS, "shuffled_neg_samples = z_samples[neg_batch_perm]", "shuffled_neg_samples = train_samples[neg_batch_perm]"),
        V("batches one row short", NS, "shuffled_pos_samples[batch_start:batch_start + pos_batch_size]", "shuffled_pos_samples[batch_start:batch_start + pos_batch_size - 1]"),
        V("equivalent: detach without clone (nothing writes the copy)", NS, "data.clone().detach().to(device=self.device, dtype=torch.double)", "data.detach().to(device=self.device, dtype=torch.double)", "silent"),
    ],
    "C08": [
        V("flip without copy", PA, "flip_spin(i, samples.clone())", "flip_spin(i, samples)"),
        V("to_pm1 in place", OU, "samples.mul(2.0).sub(1.0)", "samples.mul_(2.0).sub_(1.0)"),
        V("sigma_y sign", PA, "cplx.make_complex(torch.zeros_like(coeff), coeff)", "cplx.make_complex(torch.zeros_like(coeff), -coeff)"),
        V("not divided by the number of sites", PA, "cplx.real(numer_sum).div_(samples.shape[-1])", "cplx.real(numer_sum)"),
        V("rho argument order", DM, "self.rho(vp, v, expand=False)", "self.rho(v, vp, expand=False)"),
        V("open chain distance on one factor only", IN, "samples[:, :-self.c] * samples[:, self.c:]", "samples[:, :-1] * samples[:, self.c:]"),
        V("periodic distance fixed to 1", IN, "(i + self.c) % L", "(i + 1) % L"),
        V("one site skipped", PA, "range(samples.shape[-1])", "range(samples.shape[-1] - 1)", nth=1),
        V("Z estimator without the -1", PA, "to_pm1(samples.mean(1))", "samples.mean(1).mul(2.0)"),
        V("equivalent: 1 - s flip", PA, "samples[..., i].sub_(1).abs_()", "samples[..., i] = 1 - samples[..., i]", "silent"),
    ],
    "C09": [
        V("temporary is a view", EN, "_s = s1[:, A].clone()", "_s = s1[:, A]"),
        V("first replica not copied", EN, "swap(samples1.clone(), samples2.clone(), self.A)", "swap(samples1, samples2.clone(), self.A)"),
        V("roll along the site axis", EN, "torch.roll(samples1, 1, 0)", "torch.roll(samples1, 1, 1)"),
        V("zero shift", EN, "torch.roll(samples1, 1, 0)", "torch.roll(samples1, 0, 0)"),
        V("weight against the other replica", EN, "nn_state.importance_sampling_weight(samples1_, samples1)", "nn_state.importance_sampling_weight(samples1_, samples2)"),
        V("imaginary part returned", EN, "return cplx.real(weight)", "return cplx.imag(weight)"),
        V("write-back reads the overwritten region", EN, "s2[:, A] = _s", "s2[:, A] = s1[:, A]"),
        V("equivalent: roll by -1", EN, "torch.roll(samples1, 1, 0)", "torch.roll(samples1, -1, dims=0)", "silent"),
    ],
    "C10": [
        V("rotated probabilities not normalised", TS, "nn_probs = cplx.absolute_value(Upsi) ** 2 / Z", "nn_probs = cplx.absolute_value(Upsi) ** 2"),
        V("psi divided by Z instead of sqrt Z", TS, "nn_state.psi(space) / Z.sqrt()", "nn_state.psi(space) / Z"),
        V("KL arguments exchanged", TS, "_single_basis_KL(target_probs_r, nn_probs_r)", "_single_basis_KL(nn_probs_r, target_probs_r)", nth=0),
        V("KL not averaged", TS, "KL /= float(len(bases))", "pass", nth=1),
        V("NLL sign", TS, "-torch.mean(probs_to_logits(nn_probs)).item()", "torch.mean(probs_to_logits(nn_probs)).item()"),
        V("single-basis KL negated", TS, "torch.sum(target_probs * probs_to_logits(target_probs)) - torch.sum(target_probs * probs_to_logits(nn_probs))",
          "torch.sum(target_probs * probs_to_logits(nn_probs)) - torch.sum(target_probs * probs_to_logits(target_probs))"),
        V("fidelity returns a tensor", TS, "return trace ** 2", "return torch.tensor(trace ** 2)"),
        V("rho not normalised in the fidelity", TS, "nn_state.rho(space, space) / Z", "nn_state.rho(space, space)"),
        V("equivalent: KL = KL / len(bases)", TS, "KL /= float(len(bases))", "KL = KL / len(bases)", "silent", nth=0),
    ],
    "C11": [
        V("every network saved from rbm_am", NS, "{net: getattr(self, net).state_dict() for net in self.networks}", "{net: self.rbm_am.state_dict() for net in self.networks}"),
        V("num_aux read from the hidden bias", DM, "len(state_dict['rbm_am']['aux_bias'])", "len(state_dict['rbm_am']['hidden_bias'])"),
        V("unitary_dict not restored", NS, "if hasattr(self, 'unitary_dict') and 'unitary_dict' in state_dict.keys():\n    self.unitary_dict = state_dict['unitary_dict']", "pass"),
        V("only the amplitude network loaded", NS, "for net in self.networks:\n    getattr(self, net).load_state_dict(state_dict[net])", "self.rbm_am.load_state_dict(state_dict['rbm_am'])"),
        V("metadata written through", NS, "metadata = dict(metadata) if metadata else {}", "metadata = metadata if metadata else {}"),
        V("reserved network names accepted", NS, "for net in self.networks:\n    if net in metadata.keys():\n        raise ValueError(f\"Invalid key in metadata; '{net}' cannot be a key!\")", "pass"),
        V("equivalent: validation after assembling the payload (before writing)", NS,
          "for net in self.networks:\n    if net in metadata.keys():\n        raise ValueError(f\"Invalid key in metadata; '{net}' cannot be a key!\")\ndata = {net: getattr(self, net).state_dict() for net in self.networks}\ndata.update(metadata)",
          "data = {net: getattr(self, net).state_dict() for net in self.networks}\ndata.update(metadata)\nfor net in self.networks:\n    if net in metadata.keys():\n        raise ValueError(f\"Invalid key in metadata; '{net}' cannot be a key!\")", "silent"),
    ],
    "C12": [
        V("stop test before batch-end", NS, "callbacks.on_batch_end(self, ep, b)\nif self.stop_training:\n    break", "if self.stop_training:\n    break\ncallbacks.on_batch_end(self, ep, b)"),
        V("return instead of break after epoch-end", NS, "callbacks.on_epoch_end(self, ep)\nif self.stop_training:\n    break", "callbacks.on_epoch_end(self, ep)\nif self.stop_training:\n    return"),
        V("step after batch-end", NS, "optimizer.step()\ncallbacks.on_batch_end(self, ep, b)", "callbacks.on_batch_end(self, ep, b)\noptimizer.step()"),
        V("last epoch missing", NS, "range(starting_epoch, epochs + 1)", "range(starting_epoch, epochs)"),
        V("event arguments swapped", NS, "callbacks.on_batch_start(self, ep, b)", "callbacks.on_batch_start(self, b, ep)"),
        V("train-start dropped", NS, "callbacks.on_train_start(self)", "pass"),
        V("dispatch in reverse order", CB + "callback_list.py", "for cb in self.callbacks:\n    cb.on_epoch_end(rbm, epoch)", "for cb in reversed(self.callbacks):\n    cb.on_epoch_end(rbm, epoch)"),
        V("wrong arity demanded", CB + "lambda_callback.py", "self._validate_function(on_batch_start, 3, 'on_batch_start')", "self._validate_function(on_batch_start, 2, 'on_batch_start')"),
        V("entry test removed", NS, "if self.stop_training:\n    return", "pass"),
        V("flag cleared at train end", NS, "callbacks.on_train_end(self)", "callbacks.on_train_end(self)\nself._stop_training = False"),
        V("equivalent: explicit `is True`", NS, "if self.stop_training:\n    break", "if self.stop_training is True:\n    break", "silent", nth=0),
    ],
    "C13": [
        V("burn-in and steps exchanged", OB, "burn_in if i == 0 else steps", "steps if i == 0 else burn_in"),
        V("floor number of draws", OB, "int(np.ceil(num_samples / num_chains))", "int(num_samples / num_chains)"),
        V("chains restarted every draw", OB, "nn_state.sample(num_samples=num_chains, k=num_gibbs_steps, initial_state=chains, overwrite=True)",
          "nn_state.sample(num_samples=num_chains, k=num_gibbs_steps, initial_state=None, overwrite=True)"),
        V("initial_state always used in place", OB, "initial_state if overwrite else initial_state.clone()", "initial_state"),
        V("sample count never advanced", SY, "total_samples += num_chains", "pass"),
        V("delta term divided by n-1", OU, "delta ** 2 * len_a * len_b / float(new_len)", "delta ** 2 * len_a * len_b / float(new_len - 1)"),
        V("guard too weak", OU, "new_var / float(new_len - 1) if new_len > 1 else float('nan')", "new_var / float(new_len - 1) if new_len > 0 else float('nan')"),
        V("system burn-in on every draw", SY, "burn_in if i == 0 else steps", "burn_in"),
        V("equivalent: observable evaluated on a copy of the chains", SY, "obs.statistics_from_samples(nn_state, chains)", "obs.statistics_from_samples(nn_state, chains.clone())", "silent"),
    ],
    "C14": [
        V("numpy permutation", NS, "torch.randperm(train_samples.shape[0])", "torch.tensor(np.random.permutation(train_samples.shape[0]))"),
        V("seed altered", INIT, "torch.manual_seed(seed)", "torch.manual_seed(seed + 1)"),
        V("observable touches a parameter", PA, "res = to_pm1(samples.mean(1))", "nn_state.rbm_am.visible_bias.add_(0.0)\nres = to_pm1(samples.mean(1))"),
        V("conditional clamps the bias in place", BR, "torch.matmul(v, self.weights.data.t(), out=out).add_(self.hidden_bias.data)", "torch.matmul(v, self.weights.data.t(), out=out).add_(self.hidden_bias.data.clamp_(-50, 50))"),
        V("metric reinitialises the model", TS, "Z = nn_state.normalization(space)", "Z = nn_state.normalization(space)\nnn_state.reinitialize_parameters()", nth=1),
        V("explicit generator", NS, "dist.sample(sample_size)", "torch.bernoulli(torch.full(tuple(sample_size), 0.5), generator=torch.Generator())"),
        V("python random start", NS, "torch.randint(train_samples.shape[0], size=(num_batches * neg_batch_size,), dtype=torch.long)",
          "torch.tensor([__import__('random').randrange(train_samples.shape[0]) for _ in range(num_batches * neg_batch_size)])"),
    ],
    "C15": [
        V("inner product imaginary sign", CX, "torch.dot(real(x), imag(y)) - torch.dot(imag(x), real(y))", "torch.dot(real(x), imag(y)) + torch.dot(imag(x), real(y))"),
        V("kronecker index order", CX, "einsum('ab,cd->acbd', x, y)", "einsum('ab,cd->cadb', x, y)"),
        V("out= aliasing check weakened", CX, "_share_storage(out, x) or _share_storage(out, y)", "_share_storage(out, x)"),
        V("out= aliasing check by identity only", CX, "_share_storage(out, x) or _share_storage(out, y)", "out is x or out is y"),
        V("inverse without conjugation", CX, "return conj(w) / (real(w) ** 2 + imag(w) ** 2) / s", "return w / (real(w) ** 2 + imag(w) ** 2) / s"),
        V("conjugate transpose without conjugation", CX, "-torch.transpose(imag(x), 0, 1)", "torch.transpose(imag(x), 0, 1)"),
        V("real() returns a copy", CX, "return x[0, ...]", "return x[0, ...].clone()"),
        V("matmul imaginary part sign", CX, "torch.matmul(real(x), imag(y)).add_(torch.matmul(imag(x), real(y)))", "torch.matmul(real(x), imag(y)).sub_(torch.matmul(imag(x), real(y)))"),
        V("make_complex slots swapped", CX, "torch.cat((x.unsqueeze(0), y.unsqueeze(0)), dim=0)", "torch.cat((y.unsqueeze(0), x.unsqueeze(0)), dim=0)"),
        V("equivalent: outer product terms reordered", CX, "torch.ger(real(x), -imag(y)) + torch.ger(imag(x), real(y))", "torch.ger(imag(x), real(y)) - torch.ger(real(x), imag(y))", "silent"),
    ],
    "C16": [
        V("reflected subtraction negates the wrong operand", OB, "SumObservable(other, -self)", "SumObservable(-other, self)"),
        V("subtraction adds", OB, "SumObservable(self, -other)", "SumObservable(self, other)"),
        V("int scalars on the right dropped", OB, "if isinstance(self.right, (float, int)):\n    result += self.right", "if isinstance(self.right, float):\n    result += self.right"),
        V("scalar/observable slots not normalised", OB, "self.left = o2\nself.right = o1", "self.left = o1\nself.right = o2"),
        V("observable times observable accepted", OB, "raise ValueError('Exactly one of o1 or o2 must be an Observable!')", "self.left, self.right = o1, o2"),
        V("negation multiplies by +1", OB, "ProdObservable(self, -1, name='-' + self.name, symbol='-' + self.symbol)", "ProdObservable(self, 1, name='-' + self.name, symbol='-' + self.symbol)"),
        V("equivalent: commuted sum", OB, "SumObservable(self, -other)", "SumObservable(-other, self)", "silent"),
    ],
    "C17": [
        V("evaluates every epoch", CB + "metric_evaluator.py", "epoch % self.period == 0", "True"),
        V("logger off by one", CB + "logger.py", "epoch % self.period == 0", "(epoch + 1) % self.period == 0"),
        V("record tuple reversed", CB + "metric_evaluator.py", "self.past_values.append((epoch, metric_vals_for_epoch))", "self.past_values.append((metric_vals_for_epoch, epoch))"),
        V("default lookup is the first record", CB + "metric_evaluator.py", "index if index is not None else -1", "index if index is not None else 0"),
        V("csv column name", CB + "observable_evaluator.py", "obs_name + '_std_error'", "obs_name + '_stderr'"),
        V("metadata callable gets the previous epoch", CB + "model_saver.py", "self._save(nn_state, epoch, save_path)", "self._save(nn_state, epoch - 1, save_path)"),
        V("None metadata stays None", CB + "model_saver.py", "metadata = {}", "metadata = None"),
        V("clear_history keeps last", CB + "observable_evaluator.py", "self.past_values = []\nself.last = {}", "self.past_values = []", nth=0),
        V("equivalent: `not epoch % period`", CB + "logger.py", "epoch % self.period == 0", "not epoch % self.period", "silent"),
    ],
    "C18": [
        V("non-strict comparison", CB + "early_stopping.py", "self.deviation() < self.tolerance", "self.deviation() <= self.tolerance"),
        V("relative to the current value", CB + "early_stopping.py", "abs(self._change_in_metric() / reference)", "abs(self._change_in_metric() / self.value_getter(self.quantity_name))"),
        V("variance instead of standard deviation", CB + "early_stopping.py", "np.sqrt(self.variance_getter(self.quantity_name, -self.patience - 1))", "self.variance_getter(self.quantity_name, -self.patience - 1)"),
        V("criterion table mixed up", CB + "early_stopping.py", "self._absolute_change", "self._relative_change"),
        V("last_epoch not recorded", CB + "early_stopping.py", "self.last_epoch = epoch", "pass"),
        V("criterion not normalised before the refusal", CB + "early_stopping.py", "criterion.strip().lower() == 'variance'", "criterion == 'variance'"),
        V("checked every epoch", CB + "early_stopping.py", "epoch % self.period == 0", "True"),
        V("lookback off by one (again)", CB + "early_stopping.py", "-self.patience - 1", "-self.patience", nth=0),
        V("equivalent: -(p + 1)", CB + "early_stopping.py", "-self.patience - 1", "-(self.patience + 1)", "silent", nth=0),
    ],
    "C19": [
        V("space not reversed", NS, "((dim[:, None] & 1 << np.arange(size)) > 0)[:, ::-1]", "(dim[:, None] & 1 << np.arange(size)) > 0"),
        V("single vector not reversed", NS, "((num & 1 << np.arange(size)) > 0)[::-1]", "(num & 1 << np.arange(size)) > 0"),
        V("little-endian powers", UN, "2 ** (torch.arange(states.shape[-1], 0, -1) - 1)", "2 ** torch.arange(states.shape[-1])"),
        V("max_size itself refused", NS, "size > self.max_size", "size >= self.max_size"),
        V("imaginary column read twice", DA, "target_psi_data[:, 1]", "target_psi_data[:, 0]"),
        V("any instead of all", DA, "torch.tensor((train_bases == 'Z').astype(np.uint8)).all(dim=1)", "torch.tensor((train_bases == 'Z').astype(np.uint8)).any(dim=1)"),
        V("real/imaginary files exchanged", DA, "cplx.make_complex(mtx_real, mtx_imag)", "cplx.make_complex(mtx_imag, mtx_real)"),
        V("equivalent: descending arange instead of reversal", NS, "((dim[:, None] & 1 << np.arange(size)) > 0)[:, ::-1]", "(dim[:, None] & 1 << np.arange(size - 1, -1, -1)) > 0", "silent"),
    ],
    "C20": [
        V("phase network aliases the amplitude network", CW, "self.rbm_ph = deepcopy(self.rbm_am)", "self.rbm_ph = self.rbm_am"),
        V("hidden/aux sizes exchanged", DM, "self.rbm_ph = PurificationRBM(num_visible, num_hidden, num_aux, gpu=gpu)", "self.rbm_ph = PurificationRBM(num_visible, num_aux, num_hidden, gpu=gpu)"),
        V("only the amplitude network reinitialised", WF, "for net in self.networks:\n    getattr(self, net).initialize_parameters()", "self.rbm_am.initialize_parameters()"),
        V("aux-bias gradient of Gamma non-zero", PR, "torch.zeros_like(self.aux_bias).expand(*batch_sizes, -1)", "torch.ones_like(self.aux_bias).expand(*batch_sizes, -1)"),
        V("aux-bias gradient of Pi non-zero", DM, "ab_grad_imag = ab_grad_real.clone()", "ab_grad_imag = cplx.imag(sig)", nth=0),
        V("hidden bias starts at one", BR, "torch.zeros(self.num_hidden, device=self.device, dtype=torch.double)", "torch.ones(self.num_hidden, device=self.device, dtype=torch.double)"),
        V("missing bases accepted", DM, "input_bases is None", "False"),
        V("module sizes ignored", PW, "self.num_hidden = self.rbm_am.num_hidden", "self.num_hidden = num_hidden"),
        V("equivalent: copy.deepcopy of the module itself", CW, "self.rbm_ph = deepcopy(self.rbm_am)", "self.rbm_ph = deepcopy(module)", "silent"),
    ],
}

# rules of other properties that share code with a property (run in the thorough tier)
# Rules of *other* properties that are necessary conditions of a property (assume/guarantee imports).  They are evaluated
# in every tier and reported as "<pid><-<rule>": e.g. an observable estimator can only equal <O> in the model's state if the
# distribution that is sampled (probability) is the one psi / rho define (C01.R1-R3, C02).
NEIGHBOURS = {
    "C01": [("c20", ("C20.R2",))],                                    # "the modulus depends only on the amplitude network": the two networks of a state do not share parameter storage
    "C03": [("c04", ("C04.R2", "C04.R3", "C04.R4", "C04.R5")), ("c15", ("C15.R2",))],                 # gradients in a rotated basis are built from the rotated amplitudes / probabilities and their terms
    "C06": [("c03", ("C03.R2",)), ("c20", ("C20.R2",))],                                   # gradient layout = parameter registration order
    "C08": [("c01", ("C01.R1", "C01.R2", "C01.R3")), ("c02", ("C02.R",)), ("c15", ("C15.R5",))],  # sampled distribution = |psi|^2 / diag(rho); rho well-formed
    "C09": [("c01", ("C01.R1", "C01.R2", "C01.R3")), ("c02", ("C02.R",)), ("c15", ("C15.R5",))],
    "C11": [("c17", ("C17.R4",))],                                    # the periodic saver hands save() the metadata object it was given
    "C10": [("c01", ("C01.R1", "C01.R2", "C01.R3", "C01.R5")), ("c02", ("C02.R",))],  # + Z = sum of probabilities
    "C12": [("c07", ("C07.R2", "C07.R6"))],                                   # one batch-start/batch-end pair per batch: ceil(N / pos_batch_size) batches per epoch
    "C13": [("c08", ("C08.R1",)), ("c16", ("C16.R5",))],             # estimators (built-in and composite) leave the chain state alone                                   # estimators leave the chain state alone
    "C14": [("c06", ("C06.R1",), None, ("negative batch not overwritten",))],   # "the same sequence of operations yields bit-identical results": computing batch gradients leaves the caller's batches as they were
    "C16": [("c13", ("C13.R4", "C13.R5"), ("ObservableBase.statistics", "variance", "mean [", "length [", "generic branch"))],                        # "its statistics are those of that combined per-sample value": composites inherit ObservableBase.statistics and its merge routine
    "C17": [("c11", ("C11.R1",)), ("c12", ("C12.R4",))],
    "C19": [("c04", ("C04.R4",))],                                   # site 0 is the leftmost factor of every tensor product             # every callback in the list receives every event
    "C18": [("c17", ("C17.R2",))],
}
