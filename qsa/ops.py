"""Op tables, part 1: arithmetic, comparison, subscripting.  (Tensor methods: ops_tensor.py,
external functions: ops_ext.py.)"""
import ast
from fractions import Fraction

from . import terms as T
from .values import (
    V, VConst, VNum, VTens, VList, VTuple, VDict, VObj, VFunc, VClass, VExt, VModule, VBound,
    VSuper, VUnknown, VSlice, VRange, VIter, TObj, Unsupported, ShapeMismatch, num_term, const_of,
    UNK, broadcast, dim_mul, dim_cat, norm_axis,
)


# ------------------------------------------------------------------------------ dims <-> values
def val_of_dim(d):
    if isinstance(d, int):
        return VConst(d)
    if d == UNK:
        v = VNum("int", T.sym("dim?"), nonneg=True)
        v.dim = UNK
        return v
    if isinstance(d, str):
        v = VNum("int", T.sym(d), pos=not d.startswith("nnz"), nonneg=True)
        v.dim = d
        return v
    # composite
    from .values import dim_size

    sz = dim_size(d)
    v = VNum("int", sz if sz is not None else T.sym("dim" + repr(d)), pos=True)
    v.dim = d
    return v


def dim_of(v):
    if isinstance(v, VConst) and isinstance(v.value, int) and not isinstance(v.value, bool):
        return v.value
    if isinstance(v, VNum):
        d = getattr(v, "dim", None)
        if d is not None:
            return d
        if v.term is not None:
            c = v.term.const_value()
            if c is not None and c.denominator == 1:
                return int(c)
            at = v.term.single_atom()
            if isinstance(at, T.Sym):
                return at.name
            return ("poly", v.term)
    return UNK


def shape_val(shape):
    if shape is None:
        u = VUnknown("shape", "shape")
        return u
    return VTuple([val_of_dim(d) for d in shape])


def is_number(v):
    return (isinstance(v, VConst) and isinstance(v.value, (int, float)) and True) or isinstance(v, VNum)


def is_real_number_const(v):
    return isinstance(v, VConst) and isinstance(v.value, (int, float)) and not isinstance(v.value, bool)


# ------------------------------------------------------------------------------ arithmetic
_PYOPS = {
    "Add": lambda a, b: a + b,
    "Sub": lambda a, b: a - b,
    "Mult": lambda a, b: a * b,
    "Div": lambda a, b: a / b,
    "FloorDiv": lambda a, b: a // b,
    "Mod": lambda a, b: a % b,
    "Pow": lambda a, b: a ** b,
    "LShift": lambda a, b: a << b,
    "RShift": lambda a, b: a >> b,
    "BitAnd": lambda a, b: a & b,
    "BitOr": lambda a, b: a | b,
}

_DUNDER = {"Add": "add", "Sub": "sub", "Mult": "mul", "Div": "truediv", "Pow": "pow", "Mod": "mod", "FloorDiv": "floordiv"}


def term_binop(op, ta, tb):
    if ta is None or tb is None:
        return None
    if op == "Add":
        return ta + tb
    if op == "Sub":
        return ta - tb
    if op == "Mult":
        return ta * tb
    if op == "Div":
        return ta / tb
    if op == "Pow":
        c = tb.const_value()
        if c is not None:
            return T.powq(ta, c)
        return T.app("pow", ta, tb)
    if op == "FloorDiv":
        ca, cb = ta.const_value(), tb.const_value()
        if ca is not None and cb is not None and cb != 0:
            return T.const(ca // cb)
        return T.app("floordiv", ta, tb)
    if op == "Mod":
        return T.app("mod", ta, tb)
    return T.app(op.lower(), ta, tb)


def complexwise(op, ta, tb, sa, sb):
    """Shape-directed distribution of elementwise arithmetic over stack0 (complex pair) terms."""
    if ta is None or tb is None:
        return None
    ca, cb = T.as_stack0(ta), T.as_stack0(tb)
    if ca is not None and cb is not None and len(ca) == len(cb):
        return T.stack0(*[term_binop(op, x, y) for x, y in zip(ca, cb)])
    if ca is not None and sa is not None and sb is not None and len(sb) < len(sa):
        return T.stack0(*[term_binop(op, x, tb) for x in ca])
    if cb is not None and sa is not None and sb is not None and len(sa) < len(sb):
        return T.stack0(*[term_binop(op, ta, y) for y in cb])
    if ca is not None and tb.is_const():
        return T.stack0(*[term_binop(op, x, tb) for x in ca])
    if cb is not None and ta.is_const() and op in ("Add", "Sub", "Mult"):
        return T.stack0(*[term_binop(op, ta, y) for y in cb])
    return term_binop(op, ta, tb)


def binop(it, op, a, b, node):
    # repo objects with operator overloads
    if isinstance(a, VObj) and a.inst.cls is not None and op in _DUNDER:
        m = a.inst.cls.find_method("__%s__" % _DUNDER[op])
        if m is not None:
            return it.call_function(VFunc(m, a), [b], {}, node)
    if isinstance(b, VObj) and b.inst.cls is not None and op in _DUNDER:
        m = b.inst.cls.find_method("__r%s__" % _DUNDER[op])
        if m is not None:
            return it.call_function(VFunc(m, b), [a], {}, node)
    if isinstance(a, VConst) and isinstance(b, VConst):
        try:
            return VConst(_PYOPS[op](a.value, b.value))
        except ZeroDivisionError:
            from .interp import RaiseEx

            raise RaiseEx("ZeroDivisionError", it.site(node), "constant division by zero", True)
        except Exception:
            return VUnknown("binop", "unknown")
    if isinstance(a, VUnknown) and isinstance(b, VUnknown) and a.kind == "set" and b.kind == "set" and op in ("Sub", "BitAnd", "BitOr", "BitXor"):
        u = VUnknown("set-%s" % op, "set")  # a set again: it has members, not an order
        u.operands = (a, b)
        return u
    if op == "MatMult" and (isinstance(a, VTens) or isinstance(b, VTens)):
        from .ops_ext import torch_matmul

        return torch_matmul(it, [a, b], {}, node)
    if isinstance(a, VTens) or isinstance(b, VTens):
        return tensor_binop(it, op, a, b, node)
    if is_number(a) and is_number(b):
        ta, tb = num_term(a), num_term(b)
        if op in ("Div", "FloorDiv", "Mod") and tb is not None:
            if not hasattr(it, "divisions"):
                it.divisions = []
            it.divisions.append((it.site(node), tb, list(it.conds), b))
        t = term_binop(op, ta, tb)
        ka = a.kind if isinstance(a, VNum) else a.kind
        kb = b.kind if isinstance(b, VNum) else b.kind
        if op == "Div":
            kind = "npfloat" if "npfloat" in (ka, kb) else "float"
        elif "npfloat" in (ka, kb):
            kind = "npfloat"
        elif "float" in (ka, kb):
            kind = "float"
        else:
            kind = "int"
        pos = _is_pos(a) and _is_pos(b) and op in ("Add", "Mult", "Div", "Pow")
        r = VNum(kind, t, pos=pos)
        # keep dimension products usable as shapes
        if op == "Mult" and kind == "int":
            da, db = dim_of(a), dim_of(b)
            if da != UNK and db != UNK and not (isinstance(da, tuple) and da[0] == "poly") and not (isinstance(db, tuple) and db[0] == "poly"):
                r.dim = dim_mul([da, db])
        return r
    if isinstance(a, VList) and isinstance(b, VList) and op == "Add":
        if a.obj.items is not None and b.obj.items is not None:
            return it.new_list(list(a.obj.items) + list(b.obj.items))
        return it.new_list(None)
    if isinstance(a, VTuple) and isinstance(b, VTuple) and op == "Add":
        return VTuple(a.items + b.items)
    if a.kind == "str" or b.kind == "str":
        return VUnknown("str-expr", "str")
    if isinstance(a, VUnknown) or isinstance(b, VUnknown):
        u = VUnknown("binop(%s)" % op, "unknown")
        ta = getattr(a, "term", None) if not isinstance(a, VConst) else num_term(a)
        tb = getattr(b, "term", None) if not isinstance(b, VConst) else num_term(b)
        u.term = term_binop(op, ta, tb) if ta is not None and tb is not None else None
        u.origin = getattr(a, "origin", None) or getattr(b, "origin", None)
        from .values import fingerprint as _fp

        fa_, fb_ = _fp(a), _fp(b)
        if fa_ is not None and fb_ is not None:
            u.fp = ("binop", op, fa_, fb_)
        return u
    if isinstance(b, (VList, VTuple)) and isinstance(a, VConst) and op == "Mult":
        a, b = b, a
    if isinstance(a, (VList, VTuple)) and op == "Mult":
        items = a.obj.items if isinstance(a, VList) else a.items
        if items is not None and isinstance(b, VConst) and isinstance(b.value, int) and not isinstance(b.value, bool) and b.value <= 64:
            rep = list(items) * b.value
            return it.new_list(rep) if isinstance(a, VList) else VTuple(rep)
        return it.new_list(None)
    raise Unsupported("binop %s on %r, %r" % (op, a, b), node, it.site(node))


def _is_pos(v):
    if isinstance(v, VConst):
        return isinstance(v.value, (int, float)) and v.value > 0
    return isinstance(v, VNum) and v.pos


def _nonpositive_real(arg):
    """An argument selected so that its real part is <= 0: where(Re u < 0, u, -u) (also <=), or -abs(u).  exp of it is bounded by 1."""
    at = arg.single_atom() if hasattr(arg, "single_atom") else None
    if isinstance(at, T.App) and at.op in ("where", "x:numpy.where", "x:torch.where") and len(at.args) == 3:
        c, u, v = at.args
        ca = c.single_atom() if hasattr(c, "single_atom") else None
        if isinstance(ca, T.App) and ca.op in ("cmp_Lt", "cmp_LtE") and hasattr(ca.args[1], "is_zero") and ca.args[1].is_zero() and hasattr(u, "terms") and hasattr(v, "terms") and (u + v).is_zero():
            lhs = ca.args[0]
            la = lhs.single_atom() if hasattr(lhs, "single_atom") else None
            if lhs == u or (isinstance(la, T.App) and la.op in ("npreal", "idx0") and la.args[0] == u):
                return True
    sm = arg.single_mono() if hasattr(arg, "single_mono") else None
    if sm is not None and sm[1] < 0 and len(sm[0]) == 1 and isinstance(sm[0][0][0], T.App) and sm[0][0][0].op == "abs" and sm[0][0][1] == 1:
        return True
    return False


def tensor_binop(it, op, a, b, node):
    kinds = []
    sa = sb = ()
    if isinstance(a, VTens):
        ta, sa = a.term, a.shape
        kinds.append(a.kind)
    else:
        ta = num_term(a) if is_number(a) else getattr(a, "term", None)
        sa = ()
        if isinstance(a, VConst) and isinstance(a.value, (str, complex)):
            ta = T.sym("lit:%r" % (a.value,))
    if isinstance(b, VTens):
        tb, sb = b.term, b.shape
        kinds.append(b.kind)
    else:
        tb = num_term(b) if is_number(b) else getattr(b, "term", None)
        sb = ()
        if isinstance(b, VConst) and isinstance(b.value, (str, complex)):
            tb = T.sym("lit:%r" % (b.value,))
    try:
        shape = broadcast(sa, sb, it.site(node))
    except ShapeMismatch as e:
        it.shape_errors.append((it.site(node), str(e)))
        shape = None
    if op in ("BitAnd", "BitOr", "LShift", "RShift"):
        t = T.app(op.lower(), ta, tb) if ta is not None and tb is not None else None
    else:
        t = complexwise(op, ta, tb, sa, sb)
        if op == "Mult" and ta is not None and tb is not None:
            # x.unsqueeze(-1) * y.unsqueeze(-2): the outer product over the last axes, one normal form with einsum('...j,...k->...jk')
            for p_, q_ in ((ta, tb), (tb, ta)):
                pa_, qa_ = p_.single_atom(), q_.single_atom()
                if (isinstance(pa_, T.App) and isinstance(qa_, T.App) and pa_.op == qa_.op == "unsq" and len(pa_.args) == 3 and len(qa_.args) == 3
                        and pa_.args[1] == -1 and qa_.args[1] == -2 and pa_.args[2] == qa_.args[2]):
                    t = T.app("einsum2", "...j,...k->...jk", pa_.args[0], qa_.args[0])
                    break
            else:
                t = T.outer_normal(t)
    kind = "tensor" if "tensor" in kinds else "ndarray"
    r = it.fresh(t, shape, kind, node)
    if op == "Div" and tb is not None and isinstance(b, VTens):
        from .ops_tensor import _sum_of_squares

        if _sum_of_squares(tb):
            # x / (a^2 + b^2): the squared modulus leaves the float64 range long before the quotient does
            it.numeric.append((it.site(node), "x / (a^2 + b^2) [range]", tb, tuple(fr.func.qualname for fr in it.frames if fr.func is not None)))
    if op in ("Div", "FloorDiv") and tb is not None and isinstance(b, VTens):
        # every tensor division with its divisor (numeric facet: what magnitude the divisor can reach)
        it.__dict__.setdefault("tensor_divisions", []).append((it.site(node), tb, tuple(fr.func.qualname for fr in it.frames if fr.func is not None)))
    if op == "Div" and ta is not None and tb is not None and hasattr(ta, "single_mono") and hasattr(tb, "terms"):
        # numeric catalogue: exp(x) / (1 + exp(x)) with an unbounded x is inf / inf = nan for x > 709.78
        sm_ = ta.single_mono()
        if sm_ is not None and sm_[1] == 1 and len(sm_[0]) == 1 and isinstance(sm_[0][0][0], T.Exp) and sm_[0][0][1] == 1 and not sm_[0][0][0].arg.is_const() and (tb - T.ONE) == ta and not _nonpositive_real(sm_[0][0][0].arg):
            it.numeric.append((it.site(node), "exp(x) / (1 + exp(x)) [overflow]", sm_[0][0][0].arg, tuple(fr.func.qualname for fr in it.frames if fr.func is not None)))
    ws = [x.obj.float_width() for x in (a, b) if isinstance(x, VTens)]
    if ws and any(w in (32, 64) for w in ws):
        r.obj.fw = max(w or 64 for w in ws)  # type promotion (an untracked operand: the library's floats are float64)
    if op == "Mult" and isinstance(a, VTens) and isinstance(b, VTens) and ta is not None and tb is not None:
        r.obj.prod_parts = (t, ta, sa, tb, sb)  # lets sum(-1) of a (.., n) x (n,) product be read as a matrix-vector product
    return r


def unaryop(it, op, v, node):
    if op == "Not":
        t = it.truth(v)
        if t is None:
            if isinstance(v, VTens) and v.term is not None and v.shape is not None and all(d == 1 for d in v.shape):
                # `not t` of a one-element tensor / array: the negation of its truth value (see builtins.bool)
                at_ = v.term.single_atom()
                inner = v.term if (isinstance(at_, T.App) and at_.op in ("any", "all", "tensor_equal", "lnot")) else T.app("cmp_NotEq", v.term, T.ZERO)
                return VNum("bool", T.app("cmp_Eq", inner, T.ZERO))
            if isinstance(v, VNum) and v.term is not None:
                at = v.term.single_atom()
                if v.kind == "bool" and at is not None and isinstance(at, T.App) and at.op.startswith("cmp_"):
                    neg = {"Eq": "NotEq", "NotEq": "Eq", "Lt": "GtE", "GtE": "Lt", "Gt": "LtE", "LtE": "Gt"}.get(at.op[4:])
                    if neg:
                        return VNum("bool", T.app("cmp_" + neg, *at.args))
                return VNum("bool", T.app("cmp_Eq", v.term, T.ZERO))  # not x  ==  (x == 0), for numbers and for symbolic booleans
            u = VUnknown("not", "bool")
            u.neg_of = v
            return u
        return VConst(not t)
    if isinstance(v, VConst):
        try:
            if op == "USub":
                return VConst(-v.value)
            if op == "UAdd":
                return VConst(+v.value)
            if op == "Invert":
                return VConst(~v.value)
        except Exception:
            return VUnknown("unary", "unknown")
    if op == "Invert" and isinstance(v, VTens):
        # ~mask on a boolean tensor / array: element-wise negation
        r = it.fresh(T.app("lnot", v.term) if v.term is not None else None, v.shape, v.kind, node)
        r.obj.valkind = v.obj.valkind
        return r
    if op == "USub":
        if isinstance(v, VNum):
            return VNum(v.kind, -v.term if v.term is not None else None)
        if isinstance(v, VTens):
            t = v.term
            if t is not None:
                c = T.as_stack0(t)
                t = T.stack0(*[-x for x in c]) if c is not None else -t
            return it.fresh(t, v.shape, v.kind, node)
        if isinstance(v, VObj) and v.inst.cls is not None:
            m = v.inst.cls.find_method("__neg__")
            if m is not None:
                return it.call_function(VFunc(m, v), [], {}, node)
        if isinstance(v, VUnknown):
            u = VUnknown("neg", v.kind, v.origin)
            u.term = -v.term if getattr(v, "term", None) is not None else None
            return u
    if op == "UAdd":
        return v
    raise Unsupported("unary %s on %r" % (op, v), node, it.site(node))


# ------------------------------------------------------------------------------ comparison
_CMP = {
    "Eq": lambda a, b: a == b, "NotEq": lambda a, b: a != b, "Lt": lambda a, b: a < b,
    "LtE": lambda a, b: a <= b, "Gt": lambda a, b: a > b, "GtE": lambda a, b: a >= b,
}


def is_none_known(v):
    """True if v is None, False if definitely not None, None if unknown."""
    if isinstance(v, VConst):
        return v.value is None
    if isinstance(v, VUnknown):
        if getattr(v, "not_none", False):
            return False
        return None
    return False


def compare(it, op, a, b, node):
    if op in ("Is", "IsNot"):
        r = None
        if isinstance(b, VConst) and b.value is None:
            r = is_none_known(a)
        elif isinstance(a, VConst) and a.value is None:
            r = is_none_known(b)
        elif isinstance(a, VConst) and isinstance(b, VConst):
            r = a.value is b.value
        elif isinstance(a, VTens) and isinstance(b, VTens):
            # python object identity: a view of a tensor is another object (a wrapper is created per tensor object,
            # and handed around unchanged by assignment, argument passing and the identity-returning methods)
            r = a is b
        elif isinstance(a, VExt) and isinstance(b, VExt):
            r = a.name == b.name
        elif isinstance(a, VObj) and isinstance(b, VObj):
            r = a.inst is b.inst
        elif isinstance(a, VFunc) and isinstance(b, VFunc) and a.self_val is None and b.self_val is None and a.func is not None and b.func is not None:
            r = a.func is b.func  # two plain (unbound) functions of the repository: the same definition or not
        elif isinstance(a, (VList, VDict)) and isinstance(b, (VList, VDict)):
            r = a.obj is b.obj  # a list / dictionary is the object that was created; every other one is another object
        elif isinstance(a, VUnknown) and isinstance(b, VUnknown) and a.kind == b.kind and a.kind in ("dtype", "device", "layout") and a.tag == b.tag:
            r = True
        elif isinstance(a, VUnknown) or isinstance(b, VUnknown):
            r = None
        else:
            r = False if type(a) is not type(b) else None
        if r is None:
            u = VUnknown("is", "bool")
            u.operands = (a, b)
            u.negated = op == "IsNot"
            return u
        return VConst(r if op == "Is" else not r)
    if op in ("In", "NotIn"):
        r = contains(it, b, a)
        if r is None:
            u = VUnknown("in", "bool")
            u.operands = (a, b)
            u.negated = op == "NotIn"
            return u
        return VConst(r if op == "In" else not r)
    if op in ("Eq", "NotEq") and isinstance(a, VObj) and isinstance(b, VObj) and a.inst.ext == "torch.device" and b.inst.ext == "torch.device":
        same = None
        if a.inst is b.inst:
            same = True
        else:
            ta_, tb_ = a.inst.attrs.get("type"), b.inst.attrs.get("type")
            if isinstance(ta_, VConst) and isinstance(tb_, VConst):
                same = ta_.value == tb_.value
        if same is not None:
            return VConst(same if op == "Eq" else not same)
        return VUnknown("device-eq", "bool")
    if isinstance(a, VConst) and isinstance(b, VConst):
        try:
            return VConst(_CMP[op](a.value, b.value))
        except Exception:
            return VUnknown("cmp", "bool")
    if isinstance(a, VTens) or isinstance(b, VTens):
        r = tensor_binop(it, "cmp_" + op, a, b, node)
        ta = a.term if isinstance(a, VTens) else (num_term(a) if is_number(a) else T.sym("lit:%r" % (getattr(b, "value", "?"),)))
        tb = b.term if isinstance(b, VTens) else (num_term(b) if is_number(b) else T.sym("lit:%r" % (getattr(b, "value", "?"),)))
        r.obj.term = T.app("cmp_" + op, ta, tb) if ta is not None and tb is not None else None
        r.obj.valkind = "bool"
        return r
    if is_number(a) and is_number(b):
        r = num_compare(op, a, b)
        if r is not None:
            return VConst(r)
        u = VNum("bool", T.app("cmp_" + op, num_term(a), num_term(b)))
        return u
    if isinstance(a, VTuple) and isinstance(b, VTuple) and op in ("Eq", "NotEq"):
        r = tuple_eq(a, b)
        if r is None:
            # equal except for sizes named by different symbols: the comparison is "those sizes are equal"
            if len(a.items) == len(b.items):
                diffs = [(x, y) for x, y in zip(a.items, b.items) if dim_of(x) != dim_of(y)]
                if len(diffs) == 1 and num_term(diffs[0][0]) is not None and num_term(diffs[0][1]) is not None:
                    return VNum("bool", T.app("cmp_" + op, num_term(diffs[0][0]), num_term(diffs[0][1])))
            u = VUnknown("shape-eq", "bool")
            u.operands, u.negated = (a, b), op == "NotEq"
            _eq_term(it, u, a, b)
            return u
        return VConst(r if op == "Eq" else not r)
    if op in ("Eq", "NotEq") and isinstance(a, VUnknown) and isinstance(b, VUnknown) and a.kind == b.kind and a.kind in ("dtype", "device", "layout") and a.tag == b.tag:
        return VConst(op == "Eq")  # the dtype / device of one tensor (or of its clone) equals itself
    if op in ("Eq", "NotEq") and any(isinstance(x, VUnknown) and x.kind == "dtype" for x in (a, b)) and all(isinstance(x, (VUnknown, VExt)) for x in (a, b)):
        # a tensor's dtype against another dtype: decided by the float widths when both are known floats (float32 is not float64)
        from .ops_ext import dtype_width

        wa, wb = dtype_width(a), dtype_width(b)
        if wa in (32, 64) and wb in (32, 64):
            return VConst((wa == wb) == (op == "Eq"))
        if (wa in (32, 64) and wb == "other") or (wb in (32, 64) and wa == "other"):
            return VConst(op != "Eq")  # a floating-point dtype is not bool / an integer dtype
    if isinstance(a, VUnknown) and a.kind == "shape" or isinstance(b, VUnknown) and b.kind == "shape":
        return VUnknown("shape-eq", "bool")
    if op in ("Eq", "NotEq"):
        # None never equals a tuple / list / dictionary (the "nothing kept yet" test of a cache key)
        for x, y in ((a, b), (b, a)):
            if isinstance(x, VConst) and x.value is None and isinstance(y, (VTuple, VList, VDict)):
                return VConst(op == "NotEq")
    u = VUnknown("cmp", "bool")
    if op in ("Eq", "NotEq"):
        u.operands, u.negated = (a, b), op == "NotEq"
        _eq_term(it, u, a, b)
    return u


def _eq_term(it, u, a, b):
    """An equality test of two followed values is the same question only when asked of the same two values: name it by them
    (numbered per interpretation), so that a decision taken for other values is not reused for these."""
    from .values import fingerprint

    fa, fb = fingerprint(a), fingerprint(b)
    if fa is None or fb is None:
        return
    reg = it.__dict__.setdefault("_fp_ids", {})
    ia, ib = reg.setdefault(fa, len(reg)), reg.setdefault(fb, len(reg))
    u.term = T.app("cmp_Eq", T.sym("value#%d" % ia), T.sym("value#%d" % ib))


def _val_eq(x, y):
    """Equality of two followed values: True / False / None.  Equal terms are equal values; different integer constants differ."""
    if isinstance(x, VTuple) and isinstance(y, VTuple):
        if len(x.items) != len(y.items):
            return False
        res = True
        for p_, q_ in zip(x.items, y.items):
            r_ = _val_eq(p_, q_)
            if r_ is False:
                return False
            if r_ is None:
                res = None
        return res
    if isinstance(x, VConst) and isinstance(y, VConst):
        try:
            return x.value == y.value
        except Exception:
            return None
    if isinstance(x, VUnknown) and isinstance(y, VUnknown) and x.kind == y.kind and x.kind in ("dtype", "device", "layout"):
        return True if x.tag == y.tag else None
    tx, ty = (num_term(x) if is_number(x) else None), (num_term(y) if is_number(y) else None)
    if tx is not None and ty is not None:
        if tx == ty:
            return True
        if tx.is_const() and ty.is_const():
            return False
        return None
    return None


def tuple_eq(a, b):
    if len(a.items) != len(b.items):
        return False
    if any(isinstance(x, (VTuple, VUnknown)) for x in list(a.items) + list(b.items)):
        # not a plain shape: element-wise equality of followed values
        return _val_eq(a, b)
    res = True
    for x, y in zip(a.items, b.items):
        dx, dy = dim_of(x), dim_of(y)
        if dx == UNK or dy == UNK:
            res = None
        elif dx != dy:
            if isinstance(dx, int) and isinstance(dy, int):
                return False
            # distinct symbols: not known equal
            return None if res is not False else False
    return res


DIM_BOUNDS = {}


def num_compare(op, a, b):
    ta, tb = num_term(a), num_term(b)
    if ta is None or tb is None:
        return None
    # +inf is below nothing and equal only to +inf; nan compares False with everything
    for x, y, flip in ((a, b, False), (b, a, True)):
        if isinstance(x, VConst) and isinstance(x.value, float) and x.value != x.value:
            return op == "NotEq"
        if isinstance(x, VConst) and isinstance(x.value, float) and x.value == float("inf") and not (isinstance(y, VConst) and isinstance(y.value, float) and y.value == float("inf")):
            o = {"Lt": "Gt", "Gt": "Lt", "LtE": "GtE", "GtE": "LtE"}.get(op, op) if flip else op
            if o == "Lt":
                return False  # inf < y never
            if o == "GtE":
                return True   # inf >= y always
    d = (ta - tb).const_value()
    if d is not None:
        return _CMP[op](d, 0)
    aa, ab = ta.single_atom(), tb.single_atom()
    if op in ("Eq", "NotEq") and isinstance(aa, T.Sym) and isinstance(ab, T.Sym) and aa.name.startswith("ptr:S") and ab.name.startswith("ptr:S") and "?" not in aa.name + ab.name:
        return (aa.name == ab.name) == (op == "Eq")  # separately allocated storages never coincide
    # a selection count never exceeds the length of the axis it was selected from (DIM_BOUNDS: count symbol -> that length)
    for x, y, flip in ((ta, tb, False), (tb, ta, True)):
        ax = x.single_atom()
        if ax is not None and isinstance(ax, T.Sym) and ax.name in DIM_BOUNDS and DIM_BOUNDS[ax.name] == y:
            # x <= y always
            o = {"Lt": "Gt", "Gt": "Lt", "LtE": "GtE", "GtE": "LtE"}.get(op, op) if flip else op
            r = {"Gt": False, "LtE": True}.get(o)
            if r is not None:
                return r
    # sign facts
    def facts(v):
        if isinstance(v, VConst):
            return v.value > 0, v.value >= 0, v.value == 0
        return v.pos, v.nonneg, False

    pa, na, za = facts(a)
    pb, nb, zb = facts(b)
    if zb:  # a ? 0
        if pa:
            return {"Eq": False, "NotEq": True, "Lt": False, "LtE": False, "Gt": True, "GtE": True}[op]
        if na:
            return {"Lt": False, "GtE": True}.get(op)
    if za:
        if pb:
            return {"Eq": False, "NotEq": True, "Lt": True, "LtE": True, "Gt": False, "GtE": False}[op]
        if nb:
            return {"Gt": False, "LtE": True}.get(op)
    if isinstance(b, VConst) and isinstance(b.value, (int, float)) and b.value < 0 and na:
        return {"Eq": False, "NotEq": True, "Lt": False, "LtE": False, "Gt": True, "GtE": True}[op]
    # integer facts: a >= 1 vs constant 1/2 ...
    if isinstance(b, VConst) and isinstance(b.value, int) and isinstance(a, VNum) and a.kind == "int" and a.pos:
        if b.value <= 1:
            return {"Lt": False, "GtE": True}.get(op) if b.value == 1 else None
    return None


def contains(it, container, item):
    from .values import dict_key

    ok, k = dict_key(item)
    if isinstance(container, VDict) and container.obj.items is not None and not ok and k in container.obj.items:
        return True
    if isinstance(container, VBound) and container.name == "keys_view":
        container = container.recv
    if isinstance(container, VDict):
        d = container.obj
        if d.items is None:
            return None
        if ok and k in d.items:
            return True
        if ok and not d.extra_unknown:
            return False
        if not d.items and not d.extra_unknown:
            return False  # nothing is in an empty dictionary, whatever the key
        return None
    if isinstance(container, VIter) and getattr(container, "one_shot", False) and container.items is not None:
        # `x in iterator` walks the iterator up to and including the first match (all of it when there is none): what a later
        # test or loop finds is only the rest
        if getattr(container, "consumed", False):
            it.exhausted.append((it.site(None) if not it.frames else "%s" % (it.stack[-1] if it.stack else "?"), "membership test on an exhausted iterator", tuple(it.stack)))
            return False
        vals = [const_of(x) for x in container.items]
        if ok and all(o for o, _ in vals):
            seq = [v for _, v in vals]
            if k in seq:
                del container.items[: seq.index(k) + 1]
                return True
            del container.items[:]
            container.consumed = True
            return False
        return None
    if isinstance(container, (VList, VTuple, VIter)):
        items = it.concrete_items(container)
        if items is None:
            return None
        if ok:
            vals = [const_of(x) for x in items]
            if all(o for o, _ in vals):
                return k in [v for _, v in vals]
        if isinstance(item, (VExt, VClass)) and all(isinstance(x, (VExt, VClass)) for x in items):
            key = lambda x: x.name if isinstance(x, VExt) else x.cls.qualname  # noqa: E731
            return key(item) in [key(x) for x in items]
        return None
    if isinstance(container, VConst) and isinstance(container.value, str) and ok and isinstance(k, str):
        return k in container.value
    return None


# ------------------------------------------------------------------------------ subscripts
def subscript(it, base, idx, node, for_store=False):
    if isinstance(base, VTens):
        items = list(idx.items) if isinstance(idx, VTuple) else [idx]
        return index_tensor(it, base, items, node)
    if isinstance(base, (VTuple, VList, VIter)):
        items = it.concrete_items(base)
        if isinstance(idx, VSlice):
            if items is None and isinstance(base, VList) and idx.lo is None and idx.step is None and const_of(idx.hi) == (True, -1) and base.obj.elem is not None:
                # all but the last element of a list described by one generic element
                nl = it.new_list(None)
                for a_ in ("elem", "comp_node", "comp_iter", "piece_ends"):
                    if hasattr(base.obj, a_):
                        setattr(nl.obj, a_, getattr(base.obj, a_))
                nl.obj.drop_last = True
                return nl
            if items is None:
                return it.new_list(None)
            lo = _slice_const(idx.lo)
            hi = _slice_const(idx.hi)
            st = _slice_const(idx.step)
            if lo is UNK or hi is UNK or st is UNK:
                return VUnknown("slice", base.kind)
            sub = items[slice(lo, hi, st)]
            return VTuple(sub) if isinstance(base, VTuple) else it.new_list(sub)
        ok, k = const_of(idx)
        if items is not None and ok and isinstance(k, int):
            if -len(items) <= k < len(items):
                return items[k]
            from .interp import RaiseEx

            raise RaiseEx("IndexError", it.site(node), "index %d out of range (len %d)" % (k, len(items)), True)
        if items is not None and items and all(isinstance(x, VConst) for x in items) is False and isinstance(base, VList) and base.obj.elem is not None:
            return base.obj.elem
        if isinstance(base, VList) and base.obj.elem is not None:
            return base.obj.elem
        u = VUnknown("elem", "unknown")
        u.container = base
        u.index = idx
        return u
    if isinstance(base, VDict):
        from .values import dict_key

        ok, k = dict_key(idx)
        d = base.obj
        if d.items is not None and k in d.items:
            return d.items[k]
        if d.items is not None and ok and not d.extra_unknown:
            from .interp import RaiseEx

            raise RaiseEx("KeyError", it.site(node), repr(k))
        if getattr(d, "elem", None) is not None:
            return d.elem
        if not ok and d.items is not None and len(d.items) == 1 and not d.extra_unknown:
            # a key this path found present in a dictionary that holds exactly one entry is that entry's key
            for c_ in it.conds:
                u_ = c_[3] if len(c_) > 3 else None
                ops_ = getattr(u_, "operands", None)
                if (isinstance(u_, VUnknown) and u_.tag == "in" and ops_ is not None and c_[2] is (not getattr(u_, "negated", False))
                        and isinstance(ops_[1], VDict) and ops_[1].obj is d and dict_key(ops_[0]) == (ok, k)):
                    return next(iter(d.items.values()))
        if not ok and d.items and all(isinstance(x, VTens) for x in d.items.values()):
            vals = list(d.items.values())
            shapes = {x.shape for x in vals}
            terms = [x.term for x in vals]
            kt = getattr(idx, "term", None) or T.sym("key:%s" % getattr(idx, "tag", "?"))
            t = T.app("select", kt, tuple(terms)) if all(x is not None for x in terms) else None
            r = it.fresh(t, shapes.pop() if len(shapes) == 1 else None, vals[0].kind, node)
            for x in vals:
                r.obj.may_alias.add(x.obj)
            return r
        u = VUnknown("%s[%s]" % (d.origin, k if ok else "?"), "unknown", d.origin)
        return u
    if isinstance(base, VConst) and isinstance(base.value, str):
        ok, k = const_of(idx)
        if ok and isinstance(k, int):
            try:
                return VConst(base.value[k])
            except IndexError:
                pass
        if isinstance(idx, VSlice):
            lo, hi, st = _slice_const(idx.lo), _slice_const(idx.hi), _slice_const(idx.step)
            if UNK not in (lo, hi, st):
                return VConst(base.value[slice(lo, hi, st)])
        return VUnknown("strindex", "str")
    if isinstance(base, VUnknown):
        ok, k = const_of(idx)
        u = VUnknown("%s[%s]" % (base.tag, repr(k) if ok else "?"), "unknown", base.origin)
        if base.kind == "shape":
            if isinstance(idx, VSlice):
                return VUnknown("shape[:]", "shape")
            v = VNum("int", T.sym("dim?"), nonneg=True)
            v.dim = UNK
            return v
        return u
    if isinstance(base, VObj):
        if base.inst.cls is not None and base.inst.cls.find_method("__getitem__"):
            return it.call_method(base, "__getitem__", [idx], {}, node)
        return VUnknown("objitem", "unknown")
    if isinstance(base, VBound):
        return VUnknown("bounditem", "unknown")
    if isinstance(base, VExt):
        u = VUnknown(base.name + "[..]", "str" if base.name.endswith("__version__") else "unknown")
        u.not_none = True
        return u
    if isinstance(base, VNum) or (isinstance(base, VConst) and isinstance(base.value, (int, float, bool, type(None)))):
        from .interp import RaiseEx

        raise RaiseEx("TypeError", it.site(node), "'%s' object is not subscriptable" % base.kind, True)
    raise Unsupported("subscript of %r" % (base,), node, it.site(node))


def _slice_const(v):
    if v is None:
        return None
    ok, c = const_of(v)
    if ok and (c is None or isinstance(c, int)):
        return c
    return UNK


def index_spec(it, idx, node):
    items = list(idx.items) if isinstance(idx, VTuple) else [idx]
    return tuple(_spec_item(x) for x in items)


def _spec_item(x):
    if isinstance(x, VConst):
        if x.value is None:
            return "none"
        if x.value is Ellipsis:
            return "ellipsis"
        return x.value
    if isinstance(x, VNum):
        return x.term
    if isinstance(x, VSlice):
        return ("slice",) + tuple(
            None if p is None else (const_of(p)[1] if const_of(p)[0] else num_term(p)) for p in (x.lo, x.hi, x.step)
        )
    if isinstance(x, VTens):
        return ("adv", x.term if x.term is not None else T.sym("T%d" % x.obj.id))
    if isinstance(x, VList):
        if x.obj.items is not None and all(const_of(e)[0] for e in x.obj.items):
            return ("advlist", tuple(const_of(e)[1] for e in x.obj.items))
        el = x.obj.elem
        if x.obj.items is None and el is not None and num_term(el) is not None:
            rng = getattr(x.obj, "comp_iter", None)
            if getattr(x.obj, "filtered_by_key", False):
                return ("advcomp", num_term(el), rng, "bykey")
            return ("advcomp", num_term(el), rng)
        return ("adv", T.sym("list?%d" % (id(x.obj) % 100000)))  # one symbol per list: two lists nobody followed are two different lists
    if isinstance(x, VUnknown):
        return ("unk", x.tag)
    return ("unk", repr(x))


def index_tensor(it, tv, items, node):
    """x[items]: basic indexing -> view; advanced -> fresh (or maybe-alias when undecidable)."""
    shape = tv.shape
    spec = tuple(_spec_item(x) for x in items)
    adv = [x for x in items if isinstance(x, (VTens, VList))]
    if tv.kind == "ndarray":
        # numpy reads a torch tensor with exactly one element as an integer (operator.index succeeds): array[tensor] then
        # drops the indexed axis instead of keeping an axis of length 1
        for x in items:
            if isinstance(x, VTens) and x.kind == "tensor" and x.shape is not None and len(x.shape) == 1 and not (isinstance(x.shape[0], int) and x.shape[0] != 1) and x.obj.valkind != "bool":
                it.interop.append((it.site(node), tv, x))
    unk = [x for x in items if isinstance(x, VUnknown)]
    for x in adv:
        if isinstance(x, VTens) and x.kind == "tensor" and tv.kind == "tensor" and getattr(x.obj, "float_literal", False) and not x.view:
            # torch: "tensors used as indices must be long, int, byte or bool tensors" (a floating-point tensor is none of them)
            from .interp import RaiseEx

            raise RaiseEx("IndexError", it.site(node), "a floating-point tensor is used as an index", True)
    # ---- shape
    new_shape = None
    if shape is not None:
        new_shape = _index_shape(it, shape, items, node)
    def _full(x):
        if isinstance(x, VConst) and x.value is Ellipsis:
            return True
        if not isinstance(x, VSlice):
            return False
        return all(p_ is None or (isinstance(p_, VConst) and p_.value is None) for p_ in (x.lo, x.hi, x.step))

    if items and all(_full(x) for x in items) and (shape is None or len([x for x in items if isinstance(x, VSlice)]) <= len(shape)):
        return VTens(tv.obj, tv.view, tv.shape)  # x[:], x[:, :], x[...]: the same values (a view of everything)
    if not adv and not unk:
        # complex-component view x[k] / x[k, ...]
        first = items[0]
        rest_full = all(
            (isinstance(x, VConst) and x.value is Ellipsis) or (isinstance(x, VSlice) and x.lo is None and x.hi is None and x.step is None)
            for x in items[1:]
        )
        ok, k = const_of(first)
        if ok and isinstance(k, int) and not isinstance(k, bool) and k >= 0 and rest_full:
            return VTens(tv.obj, tv.view + (("idx0", k),), new_shape)
        # identity index x[...] / x[:]
        if rest_full and ((isinstance(first, VConst) and first.value is Ellipsis) or (isinstance(first, VSlice) and first.lo is None and first.hi is None and first.step is None)):
            return VTens(tv.obj, tv.view, new_shape)
        return VTens(tv.obj, tv.view + (("index", spec),), new_shape)
    t = tv.term
    nt = T.app("index", t, spec) if t is not None else None
    r = it.fresh(nt, new_shape, tv.kind, node)
    if unk and not adv:
        # index of unknown kind (int or list or tensor): may be a view
        r.obj.may_alias.add(tv.obj)
        r.obj.maybe_view = True
    if tv.obj.valkind:
        r.obj.valkind = tv.obj.valkind
    return r


def _sym_len(it, hi, d):
    """Length of x[:hi] along an axis of length d when hi is symbolic: hi when hi == d or the path has established hi <= d."""
    from .interp import _cond_key

    ht = num_term(hi)
    if ht is None or d is UNK or d is None:
        return None
    hd = dim_of(hi)
    if hd == d:
        return d
    dt = num_term(val_of_dim(d)) if not isinstance(d, int) else T.const(d)
    if dt is None or hd is UNK:
        return None
    for op_, want in (("cmp_Lt", False), ("cmp_GtE", True)):  # not (d < hi)  /  d >= hi
        k_, fl_ = _cond_key(T.app(op_, dt, ht))
        if k_ in it.term_memo and (it.term_memo[k_] != fl_) == want:
            return hd
    return None


def _index_shape(it, shape, items, node):
    n_real = sum(1 for x in items if not (isinstance(x, VConst) and (x.value is None or x.value is Ellipsis)))
    # a boolean mask / index tensor may consume one dim each
    out = []
    pos = 0
    adv_shapes = []
    adv_at = None
    rank = len(shape)
    for x in items:
        if isinstance(x, VConst) and x.value is Ellipsis:
            keep = rank - pos - (n_real - _count_real_before(items, x))
            for _ in range(max(keep, 0)):
                out.append(shape[pos])
                pos += 1
            continue
        if isinstance(x, VConst) and x.value is None:
            out.append(1)
            continue
        if pos >= rank:
            return None
        if isinstance(x, VSlice):
            if x.lo is None and x.hi is None and x.step is None:
                out.append(shape[pos])
            else:
                lo, hi, st = _slice_const(x.lo), _slice_const(x.hi), _slice_const(x.step)
                d = shape[pos]
                if isinstance(d, int) and UNK not in (lo, hi, st):
                    out.append(len(range(*slice(lo, hi, st).indices(d))))
                elif st in (-1,) and lo is None and hi is None:
                    out.append(d)
                elif x.lo is None and x.step is None and x.hi is not None and _sym_len(it, x.hi, d) is not None:
                    out.append(_sym_len(it, x.hi, d))  # x[:n] with n the axis' own length, or n <= length established on this path
                else:
                    out.append(UNK)
            pos += 1
        elif isinstance(x, (VTens, VList)):
            if adv_at is None:
                adv_at = len(out)
            if isinstance(x, VTens):
                if x.obj.valkind == "bool" and x.shape is not None:
                    adv_shapes.append((UNK,))
                    pos += len(x.shape)
                    continue
                adv_shapes.append(x.shape)
            else:
                adv_shapes.append((len(x.obj.items),) if x.obj.items is not None else (UNK,))
            pos += 1
        elif isinstance(x, VUnknown):
            return None
        else:
            pos += 1  # integer index drops the dim
    while pos < rank:
        out.append(shape[pos])
        pos += 1
    if adv_shapes:
        bs = adv_shapes[0]
        for s in adv_shapes[1:]:
            if bs is None or s is None:
                bs = None
                break
            try:
                bs = broadcast(bs, s, it.site(node))
            except ShapeMismatch as e:
                it.shape_errors.append((it.site(node), str(e)))
                return None
        if bs is None:
            return None
        out = out[:adv_at] + list(bs) + out[adv_at:]
    return tuple(out)


def _count_real_before(items, ell):
    n = 0
    for x in items:
        if x is ell:
            break
        if not (isinstance(x, VConst) and (x.value is None or x.value is Ellipsis)):
            n += 1
    return n


from .ops_tensor import tensor_attr, tensor_method, ndarray_method  # noqa: E402
from .ops_ext import call_ext, call_bound, call_opaque, ext_obj_attr, ext_base_attr, ext_base_has  # noqa: E402
