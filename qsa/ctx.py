"""Entry contexts: abstract model instances (built by interpreting the constructors) and inputs."""
from . import terms as T
from .interp import Interp, explore, RaiseEx, Path
from .values import VConst, VNum, VTens, VObj, VFunc, VList, VDict, VTuple, VUnknown, Unsupported
from .ops_ext import module_params

STATE_CLASSES = ("PositiveWaveFunction", "ComplexWaveFunction", "DensityMatrix")
RBM_CLASSES = ("BinaryRBM", "PurificationRBM")


def dimval(name):
    v = VNum("int", T.sym(name), pos=True)
    v.dim = name
    return v


def tens(it, name, shape, origin=None, valkind=None, kind="tensor"):
    o = it.new_tobj(kind, T.sym(name), tuple(shape) if shape is not None else None, origin or ("param:" + name))
    o.valkind = valkind
    if valkind not in ("str", "bool", "index", "perm"):
        o.fw = 64  # stated assumption: the data the properties quantify over are float64
    return VTens(o)


def havoc_params(it, modv, prefix):
    """Parameters hold arbitrary values: name them symbolically, remember their shapes."""
    out = []
    for n, p in module_params(it, modv):
        p.obj.term = T.sym("%s.%s" % (prefix, n))
        p.obj.origin = "attr:%s.%s" % (prefix, n)
        out.append((n, p))
    return out


def make_rbm(it, clsname, prefix="rbm"):
    cls = it.program.cls(clsname)
    kwargs = {"num_visible": dimval("nv"), "num_hidden": dimval("nh"), "gpu": VConst(False)}
    init = cls.find_method("__init__")
    if init is not None and "num_aux" in init.params:
        kwargs["num_aux"] = dimval("na")
    objv = it.instantiate(cls, [], kwargs, None)
    objv.inst.origin = "attr:" + prefix
    havoc_params(it, objv, prefix)
    return objv


def make_state(it, clsname, with_module=None, extra_kwargs=None):
    cls = it.program.cls(clsname)
    init = cls.find_method("__init__")
    kwargs = {"num_visible": dimval("nv"), "num_hidden": dimval("nh"), "gpu": VConst(False)}
    if init is not None and "num_aux" in init.params:
        kwargs["num_aux"] = dimval("na")
    if with_module is not None:
        kwargs = {"num_visible": dimval("nv_ignored"), "gpu": VConst(False), "module": with_module}
    if extra_kwargs:
        kwargs.update(extra_kwargs)
    objv = it.instantiate(cls, [], kwargs, None)
    objv.inst.origin = "self"
    nets = state_networks(it, objv)
    for net in nets:
        mv = it.get_attr(objv, net, None)
        if isinstance(mv, VObj):
            mv.inst.origin = "attr:" + net
            havoc_params(it, mv, net)
    n0 = len(it.effects)
    it.ctor_effects = list(it.effects)  # what the constructor did (C20 looks at it); later rules start from a clean log
    del it.effects[:]
    del it.calls[:]
    del it.ext_calls[:]
    return objv


def state_networks(it, objv):
    nv = it.get_attr(objv, "networks", None)
    items = it.concrete_items(nv)
    if items is None:
        raise Unsupported("networks of %s is not a literal list" % objv.inst.cls.name)
    return [x.value for x in items]


def call(it, objv, name, *args, **kwargs):
    m = it.get_attr(objv, name, None)
    return it.call_value(m, list(args), dict(kwargs), None)


def run(program, thunk, max_paths=48, sticky=True, stubs=None):
    """explore() and return list of Path."""
    def conf(it):
        it.sticky = sticky
        if stubs:
            it.stubs.update(stubs)

    paths = explore(program, thunk, max_paths=max_paths, configure=conf)
    for p in paths:
        for n_ in getattr(p.interp, "narrowings", []):
            if (n_[0], n_[1]) not in NARROW_SEEN:
                NARROW_SEEN.add((n_[0], n_[1]))
                NARROWINGS.append((n_[0], n_[1], path_tag(p)))
        if p.outcome == "raise" and getattr(p.value, "exc_name", None) in ACCIDENTAL:
            SUSPICIOUS.append((getattr(p.value, "site", ""), p.value.exc_name, getattr(p.value, "msg", ""), path_tag(p), bool(getattr(p.value, "definite_bug", False))))
    return paths


def grad_dim(it, modv):
    """Dimension of a flat gradient vector of a network: concatenation of its flattened parameters."""
    from .values import dim_mul, dim_cat

    return dim_cat([dim_mul(list(q.shape)) for _, q in module_params(it, modv)])


def stub_grad_lists(it, func, env, node):
    """Stub for methods returning one gradient vector per network (assume/guarantee split)."""
    selfv = env.get(func.params[0])
    nets = state_networks(it, selfv)
    out = []
    for n in nets:
        t = it.new_tobj("tensor", T.sym("G_%s@%s" % (n, func.name)), (grad_dim(it, it.get_attr(selfv, n, None)),), "fresh")
        out.append(VTens(t))
    return it.new_list(out)


class DefiniteBug(Exception):
    """Every path of an evaluation that must return raises an error that cannot be legitimate
    (unresolvable attribute, wrong arity ...)."""

    def __init__(self, exc):
        super().__init__(str(exc))
        self.exc = exc
        self.site = exc.site


# Paths that end in an error no caller can have asked for (the analysed code indexes past the end, reads a missing key or
# attribute, calls with the wrong arity, divides by zero).  `run()` collects them for every evaluation of every rule;
# core reports them, so that a rule which only looks at the returning paths cannot pass over them.
ACCIDENTAL = ("IndexError", "KeyError", "AttributeError", "TypeError", "ZeroDivisionError", "UnboundLocalError", "NameError")
SUSPICIOUS = []
NARROWINGS = []
NARROW_SEEN = set()


def returning(paths, what=""):
    """All returning paths (the rule is then applied to each one); DefiniteBug if every path fails definitely,
    Unsupported if none returns."""
    rets = [p for p in paths if p.outcome == "return"]
    if not rets and paths and all(p.outcome == "raise" and getattr(p.value, "definite_bug", False) for p in paths):
        raise DefiniteBug(paths[0].value)
    if not rets:
        raise Unsupported("%s: no returning path (%s)" % (what, [str(p.value)[:80] for p in paths][:2]))
    return rets


def path_tag(p):
    return ",".join("%s=%s" % (c[1][:24], c[2]) for c in p.conds[:4])


def single(paths, what=""):
    """Exactly one returning path expected."""
    rets = [p for p in paths if p.outcome == "return"]
    if not rets and paths and all(p.outcome == "raise" and getattr(p.value, "definite_bug", False) for p in paths):
        raise DefiniteBug(paths[0].value)
    if len(paths) != 1 or len(rets) != 1:
        raise Unsupported("%s: expected a single path, got %d (%s)" % (what, len(paths), [(p.outcome, [(c[1], c[2]) for c in p.conds]) for p in paths]))
    return rets[0]
