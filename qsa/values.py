"""Abstract values, symbolic shapes and the effect log used by the abstract interpreter."""
from fractions import Fraction

from . import terms as T


class Unsupported(Exception):
    """Construct outside the analyser's vocabulary -> the rule instance is UNDECIDED."""

    def __init__(self, msg, node=None, site=None):
        super().__init__(msg)
        self.node = node
        self.site = site


class ShapeMismatch(Exception):
    def __init__(self, msg, site=None):
        super().__init__(msg)
        self.site = site


# ------------------------------------------------------------------------------ dims
# dim := int | str (symbol) | ('flat', (d, ...)) row-major merge | ('cat', (d, ...)) concatenation
UNK = "?"


def dim_mul(ds):
    """Row-major merge of dims (ordered)."""
    flat = []
    for d in ds:
        if d == UNK:
            return UNK
        if isinstance(d, tuple) and d[0] == "flat":
            flat.extend(d[1])
        elif d == 1:
            continue
        else:
            flat.append(d)
    if not flat:
        return 1
    if len(flat) == 1:
        return flat[0]
    if all(isinstance(x, int) for x in flat):
        r = 1
        for x in flat:
            r *= x
        return r
    return ("flat", tuple(flat))


def dim_cat(ds):
    parts = []
    for d in ds:
        if d == UNK:
            return UNK
        if isinstance(d, tuple) and d[0] == "cat":
            parts.extend(d[1])
        else:
            parts.append(d)
    if all(isinstance(x, int) for x in parts):
        return sum(parts)
    if len(parts) == 1:
        return parts[0]
    return ("cat", tuple(parts))


def dim_eq(a, b):
    """True / False / None(unknown)."""
    if a == UNK or b == UNK:
        return None
    return a == b


def dim_size(d):
    """Size of a dim as a polynomial over the dimension symbols (None if unknown)."""
    if d == UNK:
        return None
    if isinstance(d, int):
        return T.const(d)
    if isinstance(d, str):
        return T.sym(d)
    if isinstance(d, tuple):
        if d[0] == "poly":
            return d[1]
        parts = [dim_size(x) for x in d[1]]
        if any(x is None for x in parts):
            return None
        r = T.ONE if d[0] == "flat" else T.ZERO
        for x in parts:
            r = r * x if d[0] == "flat" else r + x
        return r
    return None


def dims_equal(a, b):
    """True / False / None.  Structural equality, else equality of sizes as polynomials (distinct
    symbols are never assumed equal)."""
    if a == UNK or b == UNK:
        return None
    if a == b:
        return True
    sa, sb = dim_size(a), dim_size(b)
    if sa is None or sb is None:
        return None
    return sa == sb


def better_dim(a, b):
    """Prefer the structured representation of two equal dims."""
    if isinstance(a, tuple) and a[0] == "poly":
        return b
    return a


def broadcast(s1, s2, site=None):
    if s1 is None or s2 is None:
        return None
    n = max(len(s1), len(s2))
    a = (1,) * (n - len(s1)) + tuple(s1)
    b = (1,) * (n - len(s2)) + tuple(s2)
    out = []
    for x, y in zip(a, b):
        if x == 1:
            out.append(y)
        elif y == 1:
            out.append(x)
        elif x == UNK or y == UNK:
            out.append(x if y == UNK else y)
        elif dims_equal(x, y):
            out.append(better_dim(x, y))
        else:
            raise ShapeMismatch("cannot broadcast %s with %s" % (show_shape(s1), show_shape(s2)), site)
    return tuple(out)


def show_dim(d):
    if isinstance(d, tuple) and d[0] == "poly":
        return "<%r>" % (d[1],)
    if isinstance(d, tuple):
        sep = "*" if d[0] == "flat" else "+"
        return "(" + sep.join(show_dim(x) for x in d[1]) + ")"
    return str(d)


def show_shape(s):
    if s is None:
        return "<?>"
    return "(" + ", ".join(show_dim(d) for d in s) + ")"


def norm_axis(ax, rank):
    """Return axis as negative-from-the-end index (canonical for rank-polymorphic code)."""
    if rank is None:
        return ax
    if ax >= 0:
        return ax - rank
    return ax


# ------------------------------------------------------------------------------ heap objects
class TObj:
    """Abstract tensor / ndarray storage."""

    _n = 0

    def __init__(self, kind, term, shape, origin, site=None):
        TObj._n += 1
        self.id = TObj._n
        self.kind = kind  # 'tensor' | 'ndarray'
        self.term = term  # Poly | None
        self.shape = shape  # tuple | None
        self.origin = origin  # 'param:<name>' | 'attr:<path>' | 'fresh' | 'global:<name>' | 'unknown'
        self.site = site
        self.may_alias = set()  # other TObj that may share storage
        self.is_parameter = False  # nn.Parameter
        self.valkind = None  # 'bern' for 0/1 samples, 'perm', 'bool' ...
        self.grad = None
        self.version = 0  # torch's in-place modification counter (_version): bumped by in-place writes, not by `.data = ...`
        self.dtype_src = None  # object whose dtype this one shares (clone / index / detach)
        self.fw = None  # float width when known: 64 / 32 (None: not tracked); follows dtype_src

    def dtype_root(self):
        o, seen = self, set()
        while o.dtype_src is not None and o.id not in seen:
            seen.add(o.id)
            o = o.dtype_src
        return o

    def float_width(self):
        o, seen = self, set()
        while o is not None and o.id not in seen:
            if o.fw is not None:
                return o.fw
            seen.add(o.id)
            o = o.dtype_src
        return None

    def roots(self):
        out = {self}
        stack = list(self.may_alias)
        while stack:
            o = stack.pop()
            if o not in out:
                out.add(o)
                stack.extend(o.may_alias)
        return out

    def __repr__(self):
        return "<T%d %s %s>" % (self.id, self.origin, show_shape(self.shape))


class ListObj:
    def __init__(self, items, origin="fresh"):
        self.items = items  # list of V | None when unknown
        self.origin = origin
        self.elem = None  # summary value for unknown lists


class DictObj:
    def __init__(self, items, origin="fresh"):
        self.items = items  # dict key(python const) -> V | None when unknown
        self.origin = origin
        self.extra_unknown = False  # may contain further unknown keys


class Instance:
    """Instance of a repo class (or opaque external object with attrs)."""

    _n = 0

    def __init__(self, cls, origin="fresh"):
        Instance._n += 1
        self.id = Instance._n
        self.cls = cls  # ClassInfo | None
        self.attrs = {}
        self.origin = origin
        self.ext = None  # dotted name for external objects

    def __repr__(self):
        return "<Inst %s #%d>" % (self.cls.name if self.cls else self.ext, self.id)


# ------------------------------------------------------------------------------ values
class V:
    kind = "unknown"


class VConst(V):
    def __init__(self, value):
        self.value = value

    @property
    def kind(self):
        v = self.value
        if v is None:
            return "none"
        if isinstance(v, bool):
            return "bool"
        if isinstance(v, int):
            return "int"
        if isinstance(v, float):
            return "float"
        if isinstance(v, str):
            return "str"
        return "const"

    def __repr__(self):
        return "Const(%r)" % (self.value,)


class VNum(V):
    """Symbolic python scalar."""

    def __init__(self, kind, term, pos=False, nonneg=False, origin=None):
        self.kind = kind  # 'int' | 'float' | 'npfloat' | 'bool'
        self.term = term
        self.pos = pos  # known > 0
        self.nonneg = nonneg or pos
        self.origin = origin

    def __repr__(self):
        return "Num(%s:%r)" % (self.kind, self.term)


class VTens(V):
    """Reference to (a view of) a tensor object."""

    def __init__(self, obj, view=(), shape=None):
        self.obj = obj
        self.view = tuple(view)  # steps: ('idx0', k) | ('index', spec) | ('op', name, attrs)
        self._shape = shape

    @property
    def kind(self):
        return self.obj.kind

    @property
    def shape(self):
        if not self.view:
            return self.obj.shape
        return self._shape

    @property
    def rank(self):
        s = self.shape
        return None if s is None else len(s)

    @property
    def term(self):
        t = self.obj.term
        if t is None:
            return None
        for st in self.view:
            t = apply_view_step(t, st)
            if t is None:
                return None
        return t

    def __repr__(self):
        return "Tens(%r%s %s)" % (self.obj, "".join("." + str(s[0]) for s in self.view), show_shape(self.shape))


def apply_view_step(t, st):
    if st[0] == "idx0":
        return T.idx0(t, st[1])
    if st[0] == "index":
        return T.app("index", t, st[1])
    if st[0] == "op" and st[1] == "transpose_s":
        a, b, crank = st[2], st[3], st[4]
        comps = T.as_stack0(t)
        one = (lambda c: T.app("t", c)) if crank == 2 else (lambda c: T.app("transpose", c, a, b))
        return T.stack0(*[one(c) for c in comps]) if comps is not None else T.app("transpose", t, a, b)
    if st[0] == "op":
        return T.app(st[1], t, *st[2:])
    raise Unsupported("view step %r" % (st,))


class VList(V):
    kind = "list"

    def __init__(self, obj):
        self.obj = obj


class VTuple(V):
    kind = "tuple"

    def __init__(self, items):
        self.items = tuple(items)


class VDict(V):
    kind = "dict"

    def __init__(self, obj):
        self.obj = obj


class VObj(V):
    def __init__(self, inst):
        self.inst = inst

    @property
    def kind(self):
        return "object"

    def __repr__(self):
        return "Obj(%r)" % (self.inst,)


class VFunc(V):
    kind = "function"

    def __init__(self, func, self_val=None, start_cls=None, closure=None, lam=None):
        self.func = func  # FuncInfo (None for lambdas)
        self.self_val = self_val
        self.start_cls = start_cls
        self.closure = closure
        self.lam = lam  # ast.Lambda


class VClass(V):
    kind = "class"

    def __init__(self, cls):
        self.cls = cls


class VExt(V):
    """External (torch / numpy / builtin) function, class or module by dotted name."""

    kind = "external"

    def __init__(self, name):
        self.name = name

    def __repr__(self):
        return "Ext(%s)" % self.name


class VModule(V):
    kind = "module"

    def __init__(self, mod):
        self.mod = mod


class VPartial(V):
    """functools.partial(func, *args, **kwargs)"""
    kind = "partial"

    def __init__(self, func, args, kwargs):
        self.func, self.args, self.kwargs = func, list(args), dict(kwargs)


class VBound(V):
    """Method of a non-repo receiver: tensor / list / dict / str / external object."""

    kind = "boundmethod"

    def __init__(self, recv, name):
        self.recv = recv
        self.name = name


class VSuper(V):
    kind = "super"

    def __init__(self, self_val, after_cls):
        self.self_val = self_val
        self.after_cls = after_cls


class VUnknown(V):
    def __init__(self, tag="?", kind="unknown", origin=None, term=None):
        self.tag = tag
        self.kind = kind
        self.origin = origin
        self.term = term

    def __repr__(self):
        return "Unknown(%s:%s)" % (self.kind, self.tag)


class VSlice(V):
    kind = "slice"

    def __init__(self, lo, hi, step):
        self.lo, self.hi, self.step = lo, hi, step


class VRange(V):
    kind = "range"

    def __init__(self, start, stop, step):
        self.start, self.stop, self.step = start, stop, step


class VGen(V):
    """A generator object: the call of a repository generator function, not started yet.  Its body runs when it is
    consumed; every `yield` hands the value to the consumer (interp.run_generator)."""

    kind = "generator"

    def __init__(self, fv, env):
        self.fv = fv
        self.env = env
        self.started = False


class VIter(V):
    """Concrete finite python iterable produced by enumerate/zip/items/... (list of V)."""

    kind = "iter"

    def __init__(self, items):
        self.items = list(items)


# ------------------------------------------------------------------------------ effects
class Effect:
    __slots__ = ("kind", "obj", "origins", "site", "func", "detail", "stack", "lines")

    def __init__(self, kind, obj, origins, site, func, detail, stack):
        self.kind = kind  # 'write' | 'meta' | 'setattr' | 'rebind-param' | 'container' | 'ext' | 'grad' | 'params'
        self.obj = obj
        self.origins = origins  # frozenset of origin strings (incl. may-aliases)
        self.site = site
        self.func = func
        self.detail = detail
        self.stack = stack  # tuple of qualnames (call stack)

    def __repr__(self):
        return "Effect(%s %s @%s %s)" % (self.kind, sorted(self.origins), self.site, self.detail)


def num_term(v):
    """Term of a numeric value (VConst number / VNum) or None."""
    if isinstance(v, VConst):
        if isinstance(v.value, bool):
            return T.const(int(v.value))
        if isinstance(v.value, int):
            return T.const(v.value)
        if isinstance(v.value, float):
            if v.value != v.value:
                return T.sym("nan")
            if v.value in (float("inf"), float("-inf")):
                return T.sym("inf") if v.value > 0 else -T.sym("inf")
            return T.P(v.value)
        return None
    if isinstance(v, VNum):
        return v.term
    return None


def const_of(v):
    """Python constant of a value if known (VConst or VNum with constant term)."""
    if isinstance(v, VConst):
        return True, v.value
    if isinstance(v, VNum) and v.term is not None:
        c = v.term.const_value()
        if c is not None:
            if v.kind == "int" and c.denominator == 1:
                return True, int(c)
            if v.kind == "bool":
                return True, bool(c)
            return True, float(c) if c.denominator != 1 else (int(c) if v.kind == "int" else float(c))
    return False, None


def fingerprint(v, _depth=0):
    """Hashable description of an abstract value, equal only for values that are certainly equal (same constants, same terms,
    built the same way from such parts); None when the value was not followed that far."""
    if _depth > 6 or v is None:
        return None
    ok, c = const_of(v)
    if ok:
        try:
            hash(c)
            return ("c", type(c).__name__, c)
        except TypeError:
            return None
    fp = getattr(v, "fp", None) or (getattr(v.obj, "fp", None) if isinstance(v, VList) else None)
    if fp is not None:
        return fp
    if isinstance(v, VUnknown) and getattr(v, "elem", None) is not None and not callable(v.elem) and getattr(v, "source", None) is not None:
        # a generator expression / comprehension over a followed iterable: its generic item, for each item of that iterable
        el, src = fingerprint(v.elem, _depth + 1), fingerprint(v.source, _depth + 1)
        return ("each", el, src) if el is not None and src is not None else None
    if isinstance(v, VUnknown) and str(v.tag).startswith("elem@") and _depth > 0:
        return ("generic-item", v.tag)  # only meaningful inside an ("each", item, source) description
    if isinstance(v, (VTens, VNum)):
        t = getattr(v, "term", None)
        return ("t", t) if t is not None else None
    if isinstance(v, VTuple):
        parts = [fingerprint(x, _depth + 1) for x in v.items]
        return None if any(p is None for p in parts) else ("tuple",) + tuple(parts)
    if isinstance(v, VList):
        o = v.obj
        if o.items is not None:
            parts = [fingerprint(x, _depth + 1) for x in o.items]
            return None if any(p is None for p in parts) else ("list",) + tuple(parts)
        el = fingerprint(getattr(o, "elem", None), _depth + 1)
        src = fingerprint(getattr(o, "source", None), _depth + 1) or fingerprint(getattr(o, "comp_src", None), _depth + 1)
        if src is None and isinstance(getattr(o, "comp_iter", None), tuple):
            try:
                hash(o.comp_iter)
                src = ("count", o.comp_iter)
            except TypeError:
                src = None
        return ("each", el, src) if el is not None and src is not None else None
    if isinstance(v, VUnknown) and getattr(v, "term", None) is not None:
        return ("u", v.kind, v.term)
    return None


def dict_key(v):
    """Hashable abstract key of a dict subscript: python constant when known, else a symbolic key that is
    equal for equal abstract values (same term / same tag)."""
    ok, c = const_of(v)
    if ok:
        try:
            hash(c)
            return True, c
        except TypeError:
            pass
    if isinstance(v, VObj) and (v.inst.cls is None or (v.inst.cls.find_method("__hash__") is None and v.inst.cls.find_method("__eq__") is None)):
        return True, ("obj", id(v.inst))  # objects hash and compare by identity unless their class says otherwise
    if isinstance(v, VExt):
        return True, ("ext", v.name)  # torch.float64, a function, ...: itself
    if isinstance(v, VUnknown) and v.kind in ("dtype", "device") and v.tag:
        return True, ("sym", v.tag)  # the dtype / device of one tensor: the same key every time it is asked for
    if isinstance(v, VTuple):
        ks = [dict_key(x) for x in v.items]
        return all(k[0] for k in ks), tuple(k[1] for k in ks)
    if isinstance(v, VNum) and v.term is not None:
        return False, ("sym", repr(v.term))
    fp = fingerprint(v)
    if fp is not None:
        return False, ("fp", fp)
    if isinstance(v, VUnknown):
        return False, ("sym", v.tag)
    return False, ("sym", "obj%d" % id(v))
