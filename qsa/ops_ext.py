"""Op tables, part 3: external functions (torch, numpy, builtins, stdlib) and bound methods of
non-repo receivers."""
import ast

from . import terms as T
from .values import VGen  # noqa: E402
from .values import (
    V, VConst, VNum, VTens, VList, VTuple, VDict, VObj, VFunc, VClass, VExt, VModule, VBound,
    VSuper, VUnknown, VSlice, VRange, VIter, Instance, Unsupported, ShapeMismatch, num_term,
    const_of, UNK, broadcast, dim_mul, dim_cat, dims_equal,
)
from .ops_tensor import tensor_method, map_stack, reduce_shape, _axes_arg, _axis, ELEMENTWISE

ALIASES = {
    "np": "numpy", "torch.nn.functional": "F", "torch.Tensor": "torch.Tensor",
}

PURE_EXT = {
    "builtins.print", "warnings.warn", "time.time", "builtins.repr", "builtins.str", "builtins.format",
    "os.path.join", "builtins.callable", "builtins.id", "builtins.hash", "builtins.type",
}

RNG_TORCH = {"torch.randn", "torch.rand", "torch.bernoulli", "torch.randperm", "torch.randint", "torch.normal",
             "torch.multinomial", "torch.rand_like", "torch.randn_like", "torch.randint_like", "torch.poisson"}


def ext_arg(args, kwargs, i, name, default=None):
    if i is not None and i < len(args):
        return args[i]
    return kwargs.get(name, default)


def is_none(v):
    return v is None or (isinstance(v, VConst) and v.value is None)


def write_out(it, out, term, shape, node, name, valkind=None, kind="tensor"):
    """Deliver an op result: into `out` (in place) if given, else as a fresh tensor."""
    if is_none(out):
        r = it.fresh(term, shape, kind, node)
        r.obj.valkind = valkind
        return r
    if isinstance(out, VTens):
        it.write(out, term, node, "%s(out=)" % name, newshape=shape if not out.view else None)
        out.obj.valkind = valkind
        return out
    if isinstance(out, VUnknown):
        it.effect("ext", out.origin or "unknown", node, "%s(out=unknown)" % name)
        return out
    raise Unsupported("out= of kind %r" % (out,), node, it.site(node))


def tterm(v):
    if isinstance(v, VTens):
        return v.term
    if isinstance(v, VUnknown):
        return getattr(v, "term", None)
    return num_term(v)


def tshape(v):
    if isinstance(v, VTens):
        return v.shape
    if isinstance(v, (VConst, VNum)):
        return ()
    return None


def matmul_shape(sa, sb, site):
    if sa is None or sb is None:
        return None
    if len(sa) == 0 or len(sb) == 0:
        raise ShapeMismatch("matmul with a scalar operand", site)

    def chk(x, y):
        if x == UNK or y == UNK:
            return
        if not dims_equal(x, y):
            raise ShapeMismatch("matmul inner dimensions differ: %s vs %s" % (x, y), site)

    if len(sa) == 1 and len(sb) == 1:
        chk(sa[0], sb[0])
        return ()
    if len(sb) == 1:
        chk(sa[-1], sb[0])
        return tuple(sa[:-1])
    if len(sa) == 1:
        chk(sa[0], sb[-2])
        return tuple(sb[:-2]) + (sb[-1],)
    chk(sa[-1], sb[-2])
    batch = broadcast(tuple(sa[:-2]), tuple(sb[:-2]), site)
    return tuple(batch) + (sa[-2], sb[-1])


def torch_matmul(it, args, kwargs, node, op="matmul"):
    a, b = args[0], args[1]
    out = kwargs.get("out", args[2] if len(args) > 2 else None)
    ta, tb = tterm(a), tterm(b)
    try:
        shape = matmul_shape(tshape(a), tshape(b), it.site(node))
        if op == "dot" and tshape(a) is not None and tshape(b) is not None and (len(tshape(a)) != 1 or len(tshape(b)) != 1):
            raise ShapeMismatch("dot expects 1-D operands", it.site(node))
        if op == "mv" and tshape(a) is not None and tshape(b) is not None and (len(tshape(a)) != 2 or len(tshape(b)) != 1):
            raise ShapeMismatch("mv expects (2-D, 1-D) operands", it.site(node))
    except ShapeMismatch as e:
        it.shape_errors.append((it.site(node), str(e)))
        shape = None
    t = T.app("matmul", ta, tb) if ta is not None and tb is not None else None
    kind = "ndarray" if (isinstance(a, VTens) and a.kind == "ndarray") else "tensor"
    return write_out(it, out, t, shape, node, op, kind=kind)


def torch_roll(it, args, kwargs, node):
    x = args[0]
    shifts = ext_arg(args, kwargs, 1, "shifts")
    dims = ext_arg(args, kwargs, 2, "dims")
    ok1, s = const_of(shifts)
    ok2, d = const_of(dims) if dims is not None else (True, None)
    t = x.term
    ax = _axis(dims, x.rank) if dims is not None and ok2 and d is not None else None
    st_ = num_term(shifts) if not ok1 else None
    nt = T.app("roll", t, s if ok1 else (st_ if st_ is not None else repr(shifts)), ax if ax is not None else ("flat" if d is None else "?")) if t is not None else None
    r = it.fresh(nt, x.shape, x.kind, node)
    r.obj.valkind = x.obj.valkind
    return r


def arange_len(args):
    """Length of arange(*args) as a dim when it is decidable."""
    from .ops import dim_of

    ts = [num_term(x) for x in args]
    if any(t is None for t in ts):
        return UNK
    if len(ts) == 1:
        return dim_of(args[0])
    if len(ts) == 2:
        d = ts[1] - ts[0]
    else:
        st = ts[2].const_value()
        if st not in (1, -1):
            cs = [t.const_value() for t in ts]
            if all(c is not None for c in cs) and cs[2] != 0:
                return len(range(int(cs[0]), int(cs[1]), int(cs[2])))
            return UNK
        d = (ts[1] - ts[0]) * st
    c = d.const_value()
    if c is not None:
        return max(int(c), 0)
    at = d.single_atom()
    if isinstance(at, T.Sym):
        return at.name
    return ("poly", d)


def parse_einsum(spec):
    spec = spec.replace(" ", "")
    lhs, _, rhs = spec.partition("->")
    return lhs.split(","), rhs


def einsum_shape(spec, shapes, site):
    if any(s is None for s in shapes):
        return None
    ins, out = parse_einsum(spec)
    if len(ins) != len(shapes):
        raise ShapeMismatch("einsum operand count", site)
    dims = {}
    ell = None
    for sub, sh in zip(ins, shapes):
        if "..." in sub:
            pre, post = sub.split("...")
            n_ell = len(sh) - len(pre) - len(post)
            if n_ell < 0:
                raise ShapeMismatch("einsum '%s' operand rank %d too small" % (sub, len(sh)), site)
            e = tuple(sh[len(pre): len(pre) + n_ell])
            ell = e if ell is None else broadcast(ell, e, site)
            letters = list(pre) + [None] * n_ell + list(post)
        else:
            if len(sub) != len(sh):
                raise ShapeMismatch("einsum '%s' vs operand rank %d" % (sub, len(sh)), site)
            letters = list(sub)
        for l, d in zip(letters, sh):
            if l is None:
                continue
            if l in dims and dims_equal(dims[l], d) is False and 1 not in (dims[l], d):
                raise ShapeMismatch("einsum index '%s' has sizes %s and %s" % (l, dims[l], d), site)
            if l not in dims or dims[l] in (1, UNK):
                dims[l] = d
    res = []
    if "..." in out:
        pre, post = out.split("...")
        res = [dims[l] for l in pre] + list(ell or ()) + [dims[l] for l in post]
    else:
        res = [dims[l] for l in out]
    return tuple(res)


def do_einsum(it, args, kwargs, node, kind="tensor"):
    ok, spec = const_of(args[0])
    if not ok or not isinstance(spec, str):
        raise Unsupported("einsum with non-literal equation", node, it.site(node))
    ops = args[1:]
    if len(ops) == 1 and isinstance(ops[0], (VList, VTuple)):
        ops = it.concrete_items(ops[0])
    spec_n = spec.replace(" ", "")
    try:
        shape = einsum_shape(spec_n, [tshape(o) for o in ops], it.site(node))
    except (ShapeMismatch, KeyError) as e:
        it.shape_errors.append((it.site(node), "einsum %s: %s" % (spec_n, e)))
        shape = None
    ts = [tterm(o) for o in ops]
    t = None
    if all(x is not None for x in ts) and 1 <= len(ts) <= 3:
        t = einsum_as_matmul(spec_n, ts) if len(ts) == 2 else None
        if t is None and len(ts) == 2:
            # '<lead>k,k-><kept>': the product with a vector along the last axis, then a sum over the leading axes the output does
            # not name (an ellipsis missing from the output is summed as well) - decided when the operand's rank is known
            ins_, out_ = parse_einsum(spec_n)
            sh0 = tshape(ops[0])
            if len(ins_) == 2 and len(ins_[1]) == 1 and ins_[0].endswith(ins_[1]) and ins_[1] not in out_ and ins_[0].count(ins_[1]) == 1 and sh0 is not None and "..." not in out_:
                lead = ins_[0][:-1]
                n_lead = len(sh0) - 1
                names = [("...%d" % j) for j in range(n_lead - len(lead.replace("...", "")))] if "..." in lead else []
                seq = []
                for ch in (lead.split("...") if "..." in lead else [lead]):
                    seq.append(list(ch))
                axes_names = (seq[0] + names + seq[1]) if "..." in lead else seq[0]
                if len(axes_names) == n_lead and all(ch in axes_names for ch in out_) and len(set(axes_names)) == len(axes_names) and list(out_) == [a_ for a_ in axes_names if a_ in out_]:
                    summed = tuple(j - n_lead for j, a_ in enumerate(axes_names) if a_ not in out_)
                    mm = T.app("matmul", ts[0], ts[1])
                    t = T.app("sum", mm, summed) if summed else mm
        if t is None and len(ts) == 2:
            # 'c<rest>,c<rest>-><rest>' over two stacks along the leading axis: the sum over the components of their elementwise
            # products (for (re, im) pairs: re re + im im)
            ins_, out_ = parse_einsum(spec_n)
            if len(ins_) == 2 and ins_[0] == ins_[1] and len(ins_[0]) >= 1 and "..." not in spec_n and ins_[0][1:] == out_ and ins_[0][0] not in out_ and len(set(ins_[0])) == len(ins_[0]):
                ca, cb = T.as_stack0(ts[0]), T.as_stack0(ts[1])
                if ca is not None and cb is not None and len(ca) == len(cb):
                    t = T.ZERO
                    for x_, y_ in zip(ca, cb):
                        t = t + x_ * y_
        if t is None:
            t = T.app("einsum%d" % len(ts), spec_n, *ts)
    return it.fresh(t, shape, kind, node)


def einsum_as_matmul(spec, ts):
    """Two-operand einsum specs that are plain matrix products get the matmul normal form."""
    ins, out = parse_einsum(spec)
    if len(ins) != 2:
        return None
    A, B = ins
    pa = A.replace("...", "")
    if not pa or "..." in B or "..." in A[A.find("...") + 3:] if "..." in A else False:
        return None
    c = pa[-1]
    prefix = A[:-1]  # may contain the ellipsis
    if c in out or pa.count(c) != 1 or B.count(c) != 1 or any(l in pa[:-1] for l in B if l != c):
        return None
    if B == c and out == prefix:
        return T.app("matmul", ts[0], ts[1])
    if len(B) == 2:
        k = B.replace(c, "")
        if out == prefix + k:
            if B == c + k:
                return T.app("matmul", ts[0], ts[1])
            return T.app("matmul", ts[0], T.app("t", ts[1]))
    return None


def select_where(it, args, node, kind):
    """where(c, a, b): elementwise selection; the result has the broadcast shape of the three operands."""
    from .ops import broadcast

    c, a, b = args
    sh = ()
    try:
        for x in (c, a, b):
            xs = tshape(x) if isinstance(x, VTens) else ()
            if xs is None:
                sh = None
                break
            sh = broadcast(sh, xs, it.site(node))
    except ShapeMismatch as e:
        it.shape_errors.append((it.site(node), "where: %s" % e))
        sh = None
    ts = [tterm(x) if isinstance(x, VTens) else num_term(x) for x in (c, a, b)]
    t = T.app("where", *ts) if all(x is not None for x in ts) else None
    return it.fresh(t, sh, kind, node)


def literal_tensor(it, v, node, kind="tensor"):
    """torch.tensor / np.array of python data."""
    if isinstance(v, VList) and v.obj.items is None and isinstance(getattr(v.obj, "source", None), VUnknown) and v.obj.source.kind == "set":
        # list(<set>) enumerates the members in the order of the hash table: for small integers often ascending, in general not
        it.__dict__.setdefault("set_order_uses", []).append((it.site(node), "a tensor is filled from list(<set>): the members arrive in hash-table order, which is not an order of the values", tuple(it.stack)))
    if isinstance(v, VTens):
        r = it.fresh(v.term, v.shape, kind, node)
        r.obj.valkind = v.obj.valkind
        return r

    def rec(x):
        if isinstance(x, (VList, VTuple)):
            items = it.concrete_items(x)
            if items is None:
                src = getattr(getattr(x, "obj", None), "source", None)
                if src is not None and getattr(src, "tag", None):
                    return T.sym("arr:%s" % src.tag), (getattr(src, "length", None) or UNK,)
                return None, None
            subs = [rec(e) for e in items]
            if any(s[0] is None for s in subs):
                return None, None
            shapes = {s[1] for s in subs}
            if len(shapes) != 1 or subs[0][1] is None:
                return T.stack0(*[s[0] for s in subs]), None
            return T.stack0(*[s[0] for s in subs]), (len(subs),) + subs[0][1]
        if isinstance(x, VTens):
            return x.term, x.shape
        nt = num_term(x)
        if nt is not None:
            return nt, ()
        if isinstance(x, VConst) and isinstance(x.value, complex):
            # a python complex number: re + i im with the literal imaginary unit
            return T.P(x.value.real) + T.sym("lit:1j") * T.P(x.value.imag), ()
        if isinstance(x, VConst) and isinstance(x.value, str):
            return T.sym("lit:%r" % x.value), ()
        if isinstance(x, VUnknown) and x.kind not in ("starred", "iter"):
            t = getattr(x, "term", None)
            return (t if t is not None else T.sym("val:" + x.tag)), ()
        return None, None

    t, s = rec(v)
    return it.fresh(t, s, kind, node)


def shape_from_args(args):
    from .ops import dim_of

    if len(args) == 1 and isinstance(args[0], (VTuple, VList)):
        items = args[0].items if isinstance(args[0], VTuple) else args[0].obj.items
        if items is None:
            return None
        return tuple(dim_of(x) for x in items)
    if len(args) == 1 and isinstance(args[0], VUnknown):
        return None
    out = []
    for x in args:
        if isinstance(x, VUnknown) and x.kind == "starred":
            return None
        out.append(dim_of(x))
    return tuple(out)


# ------------------------------------------------------------------------------ call_ext
def call_ext(it, name, args, kwargs, node):
    from .ops import tensor_binop, shape_val, val_of_dim, dim_of, is_number
    from .interp import RaiseEx

    rec = [name, list(args), dict(kwargs), it.site(node), None, tuple(it.stack)]  # [5]: the functions on the stack
    it.ext_calls.append(rec)
    try:
        r = _call_ext(it, name, args, kwargs, node)
    except ShapeMismatch as e:
        it.shape_errors.append((it.site(node), "%s: %s" % (name, e)))
        r = it.fresh(None, None, "tensor", node)
    rec[4] = r
    return r


def _call_ext(it, name, args, kwargs, node):
    from .ops import tensor_binop, shape_val, val_of_dim, dim_of, is_number, binop, compare
    from .interp import RaiseEx

    n = name
    if n == "functools.partial" and args:
        from .values import VPartial

        return VPartial(args[0], args[1:], kwargs)
    if n in ("weakref.WeakKeyDictionary", "weakref.WeakValueDictionary") and not args:
        return it.new_dict({})  # the analysed paths keep their objects alive: an ordinary dictionary keyed by identity
    if n == "weakref.ref" and len(args) >= 1:
        inst = Instance(None)
        inst.ext = "weakref.ref"
        inst.attrs["referent"] = args[0]  # the analysed paths keep their objects alive: calling the reference returns the object
        return VObj(inst)
    if n == "collections.namedtuple" and len(args) >= 2:
        ok_, tn = const_of(args[0])
        fl = it.concrete_items(args[1])
        if fl is None and const_of(args[1])[0] and isinstance(const_of(args[1])[1], str):
            fl = [VConst(x) for x in const_of(args[1])[1].replace(",", " ").split()]
        if fl is not None and all(const_of(x)[0] and isinstance(const_of(x)[1], str) for x in fl):
            inst = Instance(None)
            inst.ext = "collections.namedtuple"
            inst.attrs["fields"] = [const_of(x)[1] for x in fl]
            inst.attrs["typename"] = tn if ok_ else "namedtuple"
            return VObj(inst)
    if n == "functools.reduce" and len(args) >= 3 and isinstance(args[1], VGen) and isinstance(args[2], VTens) and isinstance(args[0], VExt) \
            and args[0].name in ("torch.Tensor.add_", "torch.Tensor.sub_", "operator.iadd", "operator.isub"):
        # a running total kept in ONE tensor that every step updates in place: the generator's loop carries that tensor like any
        # other tensor it mutates
        acc = args[2]
        mname = "add_" if args[0].name.endswith(("add_", "iadd")) else "sub_"

        def step(v, acc=acc, mname=mname):
            tensor_method(it, acc, mname, [v], {}, node)

        it.run_generator(args[1], step, node)
        return acc
    if n == "functools.reduce" and len(args) >= 2:
        items = it.concrete_items(args[1])
        if items is not None and (len(args) > 2 or items):
            acc = args[2] if len(args) > 2 else items[0]
            for x in (items if len(args) > 2 else items[1:]):
                acc = it.call_value(args[0], [acc, x], {}, node)
            return acc
    if n in ("operator.mul", "operator.add", "operator.sub", "operator.truediv", "operator.floordiv") and len(args) == 2:
        return binop(it, {"mul": "Mult", "add": "Add", "sub": "Sub", "truediv": "Div", "floordiv": "FloorDiv"}[n.split(".")[1]], args[0], args[1], node)
    if n.startswith("numpy."):
        return call_numpy(it, n[6:], args, kwargs, node)
    if n.startswith("builtins."):
        return call_builtin(it, n[9:], args, kwargs, node)
    if n.startswith("torch.nn.functional."):
        f = n.rsplit(".", 1)[1]
        if f == "kl_div":
            # kl_div(input = log-probabilities of the model, target = probabilities): sum of target * (log target - input)
            # (entries with target 0 contribute 0); only reduction="sum" with a probability target is followed
            inp, tgt = ext_arg(args, kwargs, 0, "input"), ext_arg(args, kwargs, 1, "target")
            red_, lt_ = kwargs.get("reduction"), kwargs.get("log_target")
            if (isinstance(inp, VTens) and isinstance(tgt, VTens) and inp.term is not None and tgt.term is not None and isinstance(red_, VConst) and red_.value == "sum"
                    and (lt_ is None or (isinstance(lt_, VConst) and lt_.value is False))):
                t_ = T.app("sum", tgt.term * T.app("plog", tgt.term), "all") - T.app("sum", tgt.term * inp.term, "all")
                return it.fresh(t_, (), "tensor", node)
            return opaque_tensor(it, n, args, kwargs, node)
        if f == "linear":
            x, W = ext_arg(args, kwargs, 0, "input"), ext_arg(args, kwargs, 1, "weight")
            b = ext_arg(args, kwargs, 2, "bias")
            Wt = tensor_method(it, W, "t", [], {}, node) if isinstance(W, VTens) else W
            r = torch_matmul(it, [x, Wt], {}, node)
            if not is_none(b):
                r = tensor_binop(it, "Add", r, b, node)
            return r
        if f in ELEMENTWISE and isinstance(args[0], VTens):
            return tensor_method(it, args[0], f, [], {}, node)
        return opaque_tensor(it, n, args, kwargs, node)
    if n == "torch.nn.Parameter" or n == "torch.nn.parameter.Parameter":
        x = args[0] if args else kwargs.get("data")
        if isinstance(x, VTens):
            x.obj.is_parameter = True
            return VTens(x.obj, x.view, x._shape)
        return VUnknown("Parameter", "tensor")
    if n in ("torch.nn.utils.parameters_to_vector", "torch.nn.utils.convert_parameters.parameters_to_vector"):
        items = it.concrete_items(args[0])
        if items is None:
            return it.fresh(None, None, "tensor", node)
        segs, dims = [], []
        for x in items:
            if not isinstance(x, VTens):
                return it.fresh(None, None, "tensor", node)
            segs.append(T.app("view", x.term, "flat") if x.term is not None else None)
            dims.append(dim_mul(list(x.shape)) if x.shape is not None else UNK)
        t = T.app("cat", tuple(segs), -1) if all(s is not None for s in segs) else None
        r = it.fresh(t, (dim_cat(dims),), "tensor", node)
        r.obj.segments = list(zip(segs, dims))
        return r
    if n == "torch.distributions.utils.probs_to_logits":
        x = args[0]
        if isinstance(x, VTens):
            return it.fresh(T.app("plog", x.term) if x.term is not None else None, x.shape, "tensor", node)
        return VUnknown("plog", "tensor")
    if n in ("torch.distributions.Bernoulli", "torch.distributions.bernoulli.Bernoulli"):
        inst = Instance(None)
        inst.ext = "torch.distributions.Bernoulli"
        inst.attrs["probs"] = ext_arg(args, kwargs, 0, "probs")
        return VObj(inst)
    if n.startswith("torch.distributions."):
        inst = Instance(None)
        inst.ext = n
        inst.attrs["__args__"] = (args, kwargs)
        return VObj(inst)
    if n.startswith("torch.cuda."):
        if n.endswith("is_available"):
            return VUnknown("cuda.is_available", "bool")
        it.effect("ext", "rng:cuda" if "seed" in n else "ext:" + n, node, n)
        return VConst(None)
    if n == "torch.manual_seed" or n == "torch.seed" or n == "torch.random.manual_seed":
        it.effect("ext", "rng:torch-cpu", node, n)
        return VConst(None)
    if n in ("torch.Generator", "torch.random.fork_rng", "torch.set_rng_state", "torch.get_rng_state", "torch.initial_seed"):
        it.effect("ext", "rng:other", node, n)
        return VUnknown(n, "unknown")
    if n == "torch.device":
        if args and isinstance(args[0], VObj) and args[0].inst.ext == "torch.device":
            return args[0]  # torch.device(d) == d
        inst = Instance(None)
        inst.ext = "torch.device"
        inst.attrs["type"] = args[0] if args else VUnknown("devtype", "str")
        return VObj(inst)
    if n in ("torch.finfo", "numpy.finfo"):
        # machine parameters of a float type; torch.finfo() without an argument is the default dtype, float32
        w = dtype_width(args[0]) if args else (32 if n == "torch.finfo" else 64)
        inst = Instance(None)
        inst.ext = n
        if w in (32, 64):
            vals = {64: {"eps": 2.220446049250313e-16, "tiny": 2.2250738585072014e-308, "max": 1.7976931348623157e308, "min": -1.7976931348623157e308, "bits": 64},
                    32: {"eps": 1.1920928955078125e-07, "tiny": 1.1754943508222875e-38, "max": 3.4028234663852886e38, "min": -3.4028234663852886e38, "bits": 32}}[w]
            for k_, v_ in vals.items():
                inst.attrs[k_] = VConst(v_)
            inst.attrs["smallest_normal"] = VConst(vals["tiny"])
        return VObj(inst)
    if n == "torch.Size":
        return args[0] if args and isinstance(args[0], VTuple) else (VTuple(it.concrete_items(args[0])) if args and it.concrete_items(args[0]) is not None else VUnknown("size", "shape"))
    if n == "torch.save":
        it.effect("ext", "io:save", node, "torch.save")
        return VConst(None)
    if n == "torch.load":
        it.effect("ext", "io:load", node, "torch.load")
        d = it.new_dict({}, origin="load")
        d.obj.extra_unknown = True
        return d
    if n == "torch.typename":
        return VUnknown("typename", "str")
    if n.startswith("torch."):
        return call_torch(it, n[6:], args, kwargs, node)
    # ---- stdlib & misc
    if n == "math.ceil":
        t = num_term(args[0])
        c = t.const_value() if t is not None else None
        if c is not None:
            import math

            return VConst(math.ceil(c))
        v = VNum("int", T.app("ceil", t) if t is not None else None, pos=isinstance(args[0], VNum) and args[0].pos)
        return v
    if n in ("math.floor", "math.sqrt", "math.log", "math.exp"):
        t = num_term(args[0])
        f = {"floor": lambda x: T.app("floor", x), "sqrt": T.sqrt, "log": T.log, "exp": T.exp}[n.split(".")[1]]
        return VNum("int" if n.endswith("floor") else "float", f(t) if t is not None else None)
    if n == "itertools.chain" or n == "itertools.chain.from_iterable":
        out = []
        srcs = args if n == "itertools.chain" else (it.concrete_items(args[0]) or [VUnknown("?", "iter")])
        for a in srcs:
            items = it.concrete_items(a)
            if items is None:
                u = VUnknown("chain", "iter")
                u.sources = list(srcs)
                k_ = list(srcs).index(a)
                if k_ == len(srcs) - 1 and getattr(a, "endless", False):
                    # [x0, ...] followed by an endless tail: the head, then the tail's element forever
                    head = list(out)
                    u.endless = True
                    u.elem_first = (lambda h=head, a=a: h[0] if h else it.loop_elem(a, True, node))
                    if len(head) <= 1:
                        u.elem = (lambda a=a: it.loop_elem(a, False, node))
                return u
            out.extend(items)
        r_ = VIter(out)
        r_.one_shot = True  # a chain object is an iterator: walking it (a loop, a membership test) uses it up
        return r_
    if n == "itertools.accumulate" and len(args) == 1 and isinstance(args[0], VList) and args[0].obj.items is None and not kwargs:
        # running totals of [min(n, L - s) for s in range(0, L, n)]: the end positions min(s + n, L) of the pieces
        el, rng = args[0].obj.elem, getattr(args[0].obj, "comp_iter", None)
        et = num_term(el) if el is not None else None
        if et is not None and isinstance(rng, tuple) and rng and rng[0] == "range" and rng[1] == T.ZERO:
            a_ = et.single_atom()
            isy = [s_ for s_ in et.syms() if s_.startswith("i@")]
            if isinstance(a_, T.App) and a_.op == "min" and len(a_.args) == 2 and len(isy) == 1 and set(map(repr, a_.args)) == {repr(rng[3]), repr(rng[2] - T.sym(isy[0]))}:
                lv = it.new_list(None)
                lv.obj.elem = VNum("int", T.app("min", *sorted([T.sym(isy[0]) + rng[3], rng[2]], key=repr)), nonneg=True)
                lv.obj.comp_node = node
                lv.obj.comp_iter = rng
                lv.obj.piece_ends = (rng[3], rng[2])
                return lv
    if n == "itertools.product" and args and not kwargs:
        cols = [it.concrete_items(a) for a in args]
        if all(c is not None for c in cols):
            total = 1
            for c in cols:
                total *= max(len(c), 1)
            if total <= 256:
                import itertools as _it

                r_ = VIter([VTuple(list(combo)) for combo in _it.product(*cols)])
                r_.one_shot = True
                return r_
    if n == "itertools.repeat" and len(args) == 1:
        u = VUnknown("repeat", "iter")
        u.endless = True
        u.elem = args[0]
        return u
    if n == "itertools.count":
        u = VUnknown("count", "iter")
        u.endless = True
        return u
    if n == "warnings.warn":
        return VConst(None)
    if n == "types.MappingProxyType" and len(args) == 1 and isinstance(args[0], VDict):
        return args[0]  # a read-only view of that dictionary: the same entries, whatever happens to them
    if n == "copy.deepcopy" or n == "copy.copy":
        return deep_copy(it, args[0], node, deep=n.endswith("deepcopy"))
    if n == "functools.wraps":
        return VExt("functools.wraps.inner")
    if n == "functools.wraps.inner":
        return args[0]
    if n in ("time.time", "time.perf_counter", "time.monotonic"):
        return VNum("float", T.sym("time@%s" % it.site(node)))
    if n.startswith("random.") or n.startswith("secrets.") or n == "os.urandom" or n.startswith("uuid."):
        it.effect("ext", "rng:python", node, n)
        return VUnknown(n, "unknown")
    if n == "inspect.signature":
        u = VUnknown("signature", "unknown")
        return u
    if n in ("os.path.join", "os.path.exists", "os.path.dirname", "os.path.abspath", "os.path.basename"):
        u = VUnknown("path", "str")
        u.not_none = True
        return u
    if n == "pathlib.Path":
        inst = Instance(None)
        inst.ext = "pathlib.Path"
        return VObj(inst)
    if n == "csv.DictWriter":
        inst = Instance(None)
        inst.ext = "csv.DictWriter"
        inst.attrs["fieldnames"] = kwargs.get("fieldnames", args[1] if len(args) > 1 else None)
        it.effect("ext", "io:csv", node, n)
        return VObj(inst)
    if n in ("tqdm.tqdm", "tqdm.tqdm_notebook"):
        return args[0] if args else VUnknown("tqdm", "iter")
    if n == "scipy.linalg.sqrtm":
        return opaque_tensor(it, n, args, kwargs, node, kind="ndarray")
    if n == "torch.nn.utils.convert_parameters._check_param_device":
        return VUnknown("param_device", "unknown")
    if n in PURE_EXT:
        return VUnknown(n, "unknown")
    return call_opaque(it, VExt(n), args, kwargs, node)


def deep_copy(it, v, node, deep=True):
    if isinstance(v, VTens):
        r = it.fresh(v.term, v.shape, v.kind, node)
        r.obj.is_parameter = v.obj.is_parameter
        return r
    if isinstance(v, VObj):
        # a class that defines its own __deepcopy__ / __copy__ is copied by that method
        hook = "__deepcopy__" if deep else "__copy__"
        if v.inst.cls is not None and v.inst.cls.find_method(hook) is not None:
            return it.call_method(v, hook, [it.new_dict({})] if deep else [], {}, node)
        inst = Instance(v.inst.cls)
        inst.ext = v.inst.ext
        it.all_insts.append(inst)
        for k, x in v.inst.attrs.items():
            inst.attrs[k] = deep_copy(it, x, node, deep) if (deep and isinstance(x, (VTens, VObj, VList, VDict))) else x
        inst.copied_from = v.inst
        return VObj(inst)
    if isinstance(v, VList):
        items = v.obj.items
        return it.new_list([deep_copy(it, x, node, deep) if deep else x for x in items] if items is not None else None)
    if isinstance(v, VDict):
        items = v.obj.items
        d = it.new_dict({k: (deep_copy(it, x, node, deep) if deep else x) for k, x in items.items()} if items is not None else None)
        d.obj.extra_unknown = v.obj.extra_unknown
        return d
    return v


def opaque_tensor(it, name, args, kwargs, node, kind="tensor"):
    ts = [tterm(a) for a in args if isinstance(a, (VTens, VNum, VConst))]
    t = T.app("x:" + name, *[x for x in ts if x is not None]) if ts and all(x is not None for x in ts) else None
    it.notes.append((it.site(node), "opaque external %s" % name))
    return it.fresh(t, None, kind, node)


def call_opaque(it, f, args, kwargs, node):
    """Unknown callable: result unknown; tensors / containers passed to it may be written."""
    tag = f.name if isinstance(f, VExt) else getattr(f, "tag", "object")
    if isinstance(f, VUnknown) and getattr(f, "recv", None) is not None and not args and not kwargs and str(tag).rsplit(".", 1)[-1] in ("long", "int"):
        return f.recv  # an index value stored in another integer dtype: the same site numbers
    if isinstance(f, VUnknown) and isinstance(getattr(f, "recv", None), VUnknown) and not args and not kwargs and str(tag).rsplit(".", 1)[-1] == "item" and f.recv.kind == "unknown":
        # the python number a one-element tensor / numpy scalar holds: the same value
        rt_ = getattr(f.recv, "term", None)
        v_ = VNum("float", rt_ if rt_ is not None else T.sym("val:" + f.recv.tag))
        v_.from_value = f.recv
        return v_
    touched = []
    for a in list(args) + list(kwargs.values()):
        if isinstance(a, VTens):
            touched.append(a.obj)
        elif isinstance(a, (VList, VDict)):
            touched.append(a.obj)
        elif isinstance(a, VObj):
            touched.append(a.inst)
    if not hasattr(it, "opaque_log"):
        it.opaque_log = []
    it.opaque_log.append((tag, list(args), dict(kwargs), it.site(node)))
    e = it.effect("ext-call", "call:" + tag, node, "opaque call %s" % tag)
    e.detail = ("opaque", tag, touched)
    it.opaque_count = getattr(it, "opaque_count", 0) + 1
    u = VUnknown("ret(%s)#%d" % (tag, it.opaque_count), "unknown")  # every call of an unknown callable returns its own value
    u.callee = f
    u.call_args = (args, kwargs)
    if str(tag).endswith(".tell") and not args:
        u.not_none = True  # the stream protocol: tell() returns the position, an int
    return u


# ------------------------------------------------------------------------------ torch functions
_WIDTH = {"double": 64, "float64": 64, "float": 32, "float32": 32}


def dtype_width(v):
    """64 / 32 for a torch / numpy float dtype value, 'other' for a non-float dtype, None when unknown."""
    n = None
    if isinstance(v, VExt):
        n = v.name.rsplit(".", 1)[-1]
    elif isinstance(v, VConst) and isinstance(v.value, str):
        n = v.value
    elif isinstance(v, VUnknown) and v.kind == "dtype" and getattr(v, "of_obj", None) is not None:
        return v.of_obj.float_width() or (64 if v.of_obj.valkind not in ("bool", "index", "perm", "str") else None)  # untracked: the library's floats are float64
    if n is None:
        return None
    return _WIDTH.get(n, "other")


def _has_pyfloat(it, x):
    """(has a python float, has a python float that float32 cannot hold exactly)"""
    import struct

    if isinstance(x, (VList, VTuple)):
        items = it.concrete_items(x)
        if items is None:
            return (False, False)
        rs = [_has_pyfloat(it, e) for e in items]
        return (any(r[0] for r in rs), any(r[1] for r in rs))
    if isinstance(x, VConst) and isinstance(x.value, float):
        try:
            exact = struct.unpack("f", struct.pack("f", x.value))[0] == x.value
        except (OverflowError, struct.error):
            exact = False
        return (True, not exact)
    if isinstance(x, VNum) and x.kind in ("float", "npfloat"):
        return (True, True)
    return (False, False)


def call_torch(it, f, args, kwargs, node):
    r = _call_torch(it, f, args, kwargs, node)
    if isinstance(r, VTens) and r.obj.origin == "fresh" and not r.view and isinstance(kwargs, dict):
        w = dtype_width(kwargs.get("dtype")) if kwargs.get("dtype") is not None else None
        if w in (32, 64):
            r.obj.fw = w
        elif kwargs.get("dtype") is None:
            if f in ("Tensor", "FloatTensor"):
                r.obj.fw = 32
                if args and isinstance(args[0], VTens) and args[0].obj.float_width() == 64:
                    it.narrowings.append((it.site(node), "float64 data is converted to float32 (torch.%s of an array)" % f, args[0].obj))
            elif f == "DoubleTensor":
                r.obj.fw = 64
            elif f in ("tensor", "as_tensor") and args:
                x = args[0]
                if isinstance(x, VTens):
                    r.obj.fw = x.obj.float_width()
                else:
                    hasf, inexact = _has_pyfloat(it, x)
                    items_ = it.concrete_items(x) if isinstance(x, (VList, VTuple)) else None
                    if hasf or (items_ is not None and len(items_) == 0):
                        r.obj.float_literal = True  # python floats - or nothing at all: torch.tensor([]) is float32 - make a floating-point tensor
                    if hasf:
                        r.obj.fw = 32  # torch's default dtype for python floats
                        if inexact:
                            it.narrowings.append((it.site(node), "python floats are stored as float32 (torch.tensor without dtype)", r.obj))
                    elif isinstance(x, VUnknown) and getattr(x, "callee", None) is not None and x.kind == "unknown":
                        # what a user's callable returned: a tensor keeps its dtype, a python float (what the library's own metric
                        # functions return) becomes a float32 tensor
                        r.obj.from_value = x
                        it.narrowings.append((it.site(node), "a python float handed to torch.%s without dtype= becomes a float32 tensor: the value is rounded to about 7 digits" % f, r.obj))
            elif f in ("zeros", "ones", "rand", "randn", "empty", "full", "eye", "linspace"):
                r.obj.fw = 32
    dv = kwargs.get("device") if isinstance(kwargs, dict) else None
    if dv is not None and isinstance(r, VTens) and not (isinstance(dv, VConst) and dv.value is None) and r.obj.origin == "fresh":
        r.obj.device_val = dv  # created on the requested device
    return r


def _call_torch(it, f, args, kwargs, node):
    from .ops import tensor_binop, shape_val, val_of_dim, dim_of

    dtype_bool = False
    if f == "eye" and args and num_term(args[0]) is not None and (len(args) == 1 or num_term(args[1]) is not None):
        n_, m_ = dim_of(args[0]), dim_of(args[1] if len(args) > 1 else args[0])
        r = it.fresh(T.app("eye", num_term(args[0])) if len(args) == 1 else T.app("eye", num_term(args[0]), num_term(args[1])), (n_, m_), "tensor", node)
        dt_ = kwargs.get("dtype")
        if isinstance(dt_, VExt) and dt_.name.endswith("bool"):
            r.obj.valkind = "bool"
        return r
    if f in ("zeros", "ones", "empty", "randn", "rand", "full"):
        a = list(args)
        fill = None
        if f == "full":
            fill = a.pop(1) if len(a) > 1 else kwargs.get("fill_value")
        shape = shape_from_args(a if a else [kwargs.get("size")])
        if f == "zeros":
            t = T.ZERO
        elif f == "ones":
            t = T.ONE
        elif f == "full":
            t = num_term(fill)
        elif f == "empty":
            t = T.sym("uninit@%s" % it.site(node))
        else:
            t = T.app("rng_" + f, T.sym("rng@%s" % it.site(node)))
        return it.fresh(t, shape, "tensor", node)
    if f in ("zeros_like", "ones_like", "empty_like", "randn_like", "rand_like"):
        x = args[0]
        t = {"zeros_like": T.ZERO, "ones_like": T.ONE}.get(f, T.app("rng_" + f, T.sym("rng@%s" % it.site(node))))
        return it.fresh(t, tshape(x), "tensor", node)
    if f in ("tensor", "Tensor", "as_tensor", "from_numpy", "DoubleTensor", "FloatTensor", "LongTensor"):
        x = args[0] if args else kwargs.get("data")
        r = literal_tensor(it, x, node)
        if f in ("as_tensor", "from_numpy") and isinstance(x, VTens):
            r.obj.may_alias.add(x.obj)
        return r
    if f == "broadcast_shapes" and args:
        from .ops import shape_val

        shp = ()
        for a in args:
            items = it.concrete_items(a)
            if items is None:
                shp = None
                break
            shp = broadcast(shp, tuple(dim_of(x) for x in items), it.site(node))
        return shape_val(shp)
    if f == "hypot" and len(args) == 2 and all(isinstance(a, VTens) for a in args):
        # sqrt(a^2 + b^2) computed with scaling: the same value, without the range loss of forming the squares first
        a, b = args
        ta, tb = tterm(a), tterm(b)
        try:
            shp = broadcast(tshape(a), tshape(b), it.site(node))
        except ShapeMismatch as e:
            it.shape_errors.append((it.site(node), str(e)))
            shp = None
        r = it.fresh(T.sqrt(ta * ta + tb * tb) if ta is not None and tb is not None else None, shp, "tensor", node)
        ws = [x.obj.float_width() for x in (a, b)]
        if any(w in (32, 64) for w in ws):
            r.obj.fw = max(w or 64 for w in ws)
        return r
    if f in ("max", "min", "maximum", "minimum") and len(args) == 2 and all(isinstance(a, VTens) for a in args) and not kwargs:
        # the elementwise larger / smaller of two tensors
        a, b = args
        ta, tb = tterm(a), tterm(b)
        try:
            shp = broadcast(tshape(a), tshape(b), it.site(node))
        except ShapeMismatch as e:
            it.shape_errors.append((it.site(node), str(e)))
            shp = None
        op_ = "max" if f in ("max", "maximum") else "min"
        r = it.fresh(T.app(op_, *sorted([ta, tb], key=repr)) if ta is not None and tb is not None else None, shp, "tensor", node)
        ws = [x.obj.float_width() for x in (a, b)]
        if any(w in (32, 64) for w in ws):
            r.obj.fw = max(w or 64 for w in ws)
        return r
    if f == "promote_types" and len(args) == 2:
        wa, wb = dtype_width(args[0]), dtype_width(args[1])
        if wa in (32, 64) and wb in (32, 64):
            return VExt("torch.float64" if max(wa, wb) == 64 else "torch.float32")
        u = VUnknown("promote_types", "dtype")
        u.not_none = True
        return u
    if f in ("equal", "allclose") and len(args) >= 2 and isinstance(args[0], VTens) and isinstance(args[1], VTens):
        a, b = args[0], args[1]
        if a.term is not None and a.term == b.term and a.shape is not None and tuple(a.shape) == tuple(b.shape or ()):
            return VConst(True)  # the same value (terms are pure values)
        if a.shape is not None and b.shape is not None and len(a.shape) != len(b.shape) and f == "equal":
            return VConst(False)
        # equal: the same entries; allclose: entries within a tolerance of each other - a different fact
        u = VNum("bool", T.app("tensor_equal" if f == "equal" else "tensor_allclose", a.term, b.term)) if a.term is not None and b.term is not None else VUnknown("torch." + f, "bool")
        return u
    if f == "complex" and len(args) == 2 and all(isinstance(a, VTens) for a in args):
        # a native complex tensor from its parts: re + i im, the imaginary unit being the literal symbol
        a, b = args
        ta, tb = tterm(a), tterm(b)
        try:
            shp = broadcast(tshape(a), tshape(b), it.site(node))
        except ShapeMismatch as e:
            it.shape_errors.append((it.site(node), str(e)))
            shp = None
        r = it.fresh(ta + T.sym("lit:1j") * tb if ta is not None and tb is not None else None, shp, "tensor", node)
        r.obj.native_complex = True
        return r
    if f in ("matmul", "mm", "dot", "mv", "bmm", "vdot"):
        if f == "vdot" and len(args) == 2 and isinstance(args[0], VTens):
            # vdot conjugates its first argument, dot does not
            a0 = args[0]
            if getattr(a0.obj, "native_complex", False) and a0.term is not None:
                re_, im_ = T.complex_split(a0.term)
                c0 = it.fresh(re_ - T.sym("lit:1j") * im_, a0.shape, "tensor", node)
                c0.obj.native_complex = True
                args = [c0] + list(args[1:])
            f = "dot"
        r = torch_matmul(it, args, kwargs, node, op=f if f in ("dot", "mv") else "matmul")
        if isinstance(r, VTens) and any(isinstance(a, VTens) and getattr(a.obj, "native_complex", False) for a in args[:2]):
            r.obj.native_complex = True
        return r
    if f == "ger" or f == "outer":
        a, b = args[0], args[1]
        sa, sb = tshape(a), tshape(b)
        shape = (sa[0], sb[0]) if sa is not None and sb is not None and len(sa) == 1 and len(sb) == 1 else None
        if shape is None and sa is not None and sb is not None:
            it.shape_errors.append((it.site(node), "ger expects 1-D operands"))
        ta, tb = tterm(a), tterm(b)
        return write_out(it, kwargs.get("out"), T.app("ger", ta, tb) if ta is not None and tb is not None else None, shape, node, f)
    if f in ("mul", "add", "sub", "div", "true_divide", "pow"):
        from .ops_tensor import BINARY

        other_ = args[1]
        al_ = kwargs.get("alpha")
        if al_ is not None and f in ("add", "sub") and not (isinstance(al_, VConst) and al_.value == 1):
            other_ = tensor_binop(it, "Mult", other_, al_, node)  # torch.add(x, y, alpha=a) is x + a * y
        r = tensor_binop(it, BINARY[f], args[0], other_, node)
        out = kwargs.get("out")
        if is_none(out):
            return r
        return write_out(it, out, r.term, r.shape, node, f)
    if f == "einsum":
        return do_einsum(it, args, kwargs, node)
    if f in ("sum", "mean", "logsumexp", "prod", "all", "any"):
        return tensor_method(it, args[0], f, list(args[1:]), kwargs, node)
    if f in ELEMENTWISE and args and isinstance(args[0], VTens) and len(args) == 1:
        r = tensor_method(it, args[0], f, [], {}, node)
        out = kwargs.get("out")
        if is_none(out):
            return r
        return write_out(it, out, r.term, r.shape, node, f)
    if f == "atan2":
        a, b = args[0], args[1]
        ta, tb = tterm(a), tterm(b)
        try:
            shape = broadcast(tshape(a), tshape(b), it.site(node))
        except ShapeMismatch as e:
            it.shape_errors.append((it.site(node), str(e)))
            shape = None
        return it.fresh(T.atan2(ta, tb) if ta is not None and tb is not None else None, shape, "tensor", node)
    if f == "split" and len(args) >= 2 and isinstance(args[0], VTens):
        from .ops_tensor import split_list

        r = split_list(it, args[0], args[1], ext_arg(args, kwargs, 2, "dim", None), node)
        if r is not None:
            return r
    if f in ("cat", "stack"):
        items = it.concrete_items(args[0])
        dim = ext_arg(args, kwargs, 1, "dim", VConst(0))
        if items is None:
            lo = args[0]
            el = lo.obj.elem if isinstance(lo, VList) else None
            t = T.app(f + "_list", el.term) if isinstance(el, VTens) and el.term is not None else None
            return it.fresh(t, None, "tensor", node)
        if not all(isinstance(x, VTens) for x in items):
            return it.fresh(None, None, "tensor", node)
        ranks = {x.rank for x in items}
        rank = ranks.pop() if len(ranks) == 1 else None
        ax = _axis(dim, rank, extra=1 if f == "stack" else 0)
        shape = None
        if rank is not None and ax is not None:
            p = ax + rank + (1 if f == "stack" else 0)
            shs = [x.shape for x in items]
            try:
                if f == "cat":
                    if not (0 <= p < rank):
                        raise ShapeMismatch("cat axis out of range")
                    for s in shs[1:]:
                        for i, (d1, d2) in enumerate(zip(shs[0], s)):
                            if i != p and dims_equal(d1, d2) is False:
                                raise ShapeMismatch("cat operands differ off-axis: %s vs %s" % (shs[0], s))
                    shape = shs[0][:p] + (dim_cat([s[p] for s in shs]),) + shs[0][p + 1:]
                else:
                    for s in shs[1:]:
                        if s != shs[0] and UNK not in s and UNK not in shs[0]:
                            raise ShapeMismatch("stack operands differ: %s vs %s" % (shs[0], s))
                    shape = shs[0][:p] + (len(items),) + shs[0][p:]
            except ShapeMismatch as e:
                it.shape_errors.append((it.site(node), str(e)))
                shape = None
        ts = [x.term for x in items]
        t = None
        if all(x is not None for x in ts):
            # cat of unsqueezed(0) items along axis 0  ==  stack0
            if f == "stack" and rank is not None and ax is not None and ax + rank + 1 == 0:
                t = T.stack0(*ts)
            elif f == "cat" and rank is not None and ax is not None and ax + rank == 0 and all(_is_unsq0(x, rank) for x in ts):
                t = T.stack0(*[_strip_unsq0(x) for x in ts])
            elif f == "cat" and rank is None and const_of(dim) == (True, 0) and all(_is_unsq0(x, "front") for x in ts):
                t = T.stack0(*[_strip_unsq0(x) for x in ts])
            else:
                t = T.app(f, tuple(ts), ax)
        if not is_none(kwargs.get("out")):
            return write_out(it, kwargs.get("out"), t, shape, node, f)  # the pieces written into the given buffer
        r = it.fresh(t, shape, "tensor", node)
        if f == "cat":
            r.obj.segments = [(x.term, (x.shape[ax + rank] if x.shape is not None and rank is not None and ax is not None else UNK)) for x in items]
            r.obj.cat_axis = ax
        return r
    if f == "bernoulli":
        p = args[0]
        t = T.app("bern", tterm(p)) if tterm(p) is not None else None
        return write_out(it, kwargs.get("out"), t, tshape(p), node, "bernoulli", valkind="bern")
    if f == "randperm":
        from .ops import dim_of

        n = dim_of(args[0])
        it.rng_counter = getattr(it, "rng_counter", 0) + 1
        r = it.fresh(T.app("randperm", num_term(args[0]) if num_term(args[0]) is not None else T.sym("?"), T.sym("draw#%d" % it.rng_counter)), (n,), "tensor", node)
        r.obj.valkind = "perm"
        r.obj.perm_of = args[0]
        return r
    if f == "randint":
        a = list(args)
        size = kwargs.get("size")
        if size is None and a:
            size = a.pop()
        hi = a[-1] if a else kwargs.get("high")
        shape = shape_from_args([size]) if size is not None else None
        it.rng_counter = getattr(it, "rng_counter", 0) + 1
        r = it.fresh(T.app("randint", num_term(hi) if num_term(hi) is not None else T.sym("?"), T.sym("draw#%d" % it.rng_counter)), shape, "tensor", node)
        r.obj.valkind = "index"
        r.obj.index_bound = hi
        return r
    if f == "randint_like" and args and isinstance(args[0], VTens):
        # as many draws as the template tensor has entries, whatever that tensor holds
        a = list(args[1:])
        hi = a[-1] if a else kwargs.get("high")
        it.rng_counter = getattr(it, "rng_counter", 0) + 1
        r = it.fresh(T.app("randint", num_term(hi) if num_term(hi) is not None else T.sym("?"), T.sym("draw#%d" % it.rng_counter)), tshape(args[0]), "tensor", node)
        r.obj.valkind = "index"
        r.obj.index_bound = hi
        return r
    if f == "arange":
        from .ops import dim_of

        a = [x for x in args]
        desc = tuple(num_term(x) if num_term(x) is not None else T.sym("?") for x in a)
        shape = (arange_len(a),)
        r = it.fresh(T.app("arange", *desc), shape, "tensor", node)
        return r
    if f == "roll":
        return torch_roll(it, args, kwargs, node)
    if f == "transpose":
        return tensor_method(it, args[0], "transpose", list(args[1:]), kwargs, node)
    if f == "t":
        return tensor_method(it, args[0], "t", [], {}, node)
    if f == "var_mean":
        x = args[0]
        t = x.term
        return VTuple([
            it.fresh(T.app("var_unbiased", t) if t is not None else None, (), "tensor", node),
            it.fresh(T.app("mean", t, "all") if t is not None else None, (), "tensor", node),
        ])
    if f in ("var", "std"):
        x = args[0]
        return it.fresh(T.app(f, x.term) if x.term is not None else None, (), "tensor", node)
    if f == "diagonal":
        x = args[0]
        s = x.shape
        shape = None
        if s is not None and len(s) >= 2:
            shape = tuple(s[:-2]) + (s[-1],)
        return VTens(x.obj, x.view + (("op", "diagonal"),), shape)
    if f in ("clone", "detach"):
        return tensor_method(it, args[0], f, [], {}, node)
    if f == "where" and len(args) == 3:
        return select_where(it, args, node, "tensor")
    if f in ("unsqueeze", "squeeze", "reshape", "clamp", "abs", "round", "flip", "where", "masked_select", "index_select"):
        if isinstance(args[0], VTens):
            return tensor_method(it, args[0], f, list(args[1:]), kwargs, node)
    if f == "broadcast_tensors" and args and all(isinstance(a, VTens) for a in args):
        # broadcasting views: the same values, repeated to the common shape
        shp = tshape(args[0])
        for a in args[1:]:
            shp = broadcast(shp, tshape(a), it.site(node)) if shp is not None else None
        return VTuple([VTens(a.obj, a.view + (("op", "to"),), shp if shp is not None else None) for a in args])
    if f == "is_tensor":
        return VConst(isinstance(args[0], VTens) and args[0].kind == "tensor") if not isinstance(args[0], VUnknown) else VUnknown("is_tensor", "bool")
    if f in ("double", "float64", "float32", "float", "long", "int64", "bool", "uint8", "int", "int32", "cdouble", "cfloat", "half"):
        return VExt("torch." + f)
    if f.startswith("optim.lr_scheduler."):
        inst = Instance(None)
        inst.ext = "torch.optim.lr_scheduler"
        inst.attrs["optimizer"] = args[0] if args else None
        # torch's schedulers take one initial step in their constructor: a fresh one reports last_epoch == 0, and every
        # step() adds one (the count of steps taken by this scheduler)
        inst.attrs["last_epoch"] = VConst(0)
        return VObj(inst)
    if f.startswith("optim."):
        inst = Instance(None)
        inst.ext = "torch.optim.Optimizer"
        inst.attrs["params"] = args[0] if args else kwargs.get("params")
        inst.attrs["ctor"] = (f, args, kwargs)
        return VObj(inst)
    if f.startswith("nn."):
        return call_opaque(it, VExt("torch." + f), args, kwargs, node)
    if f in ("set_default_dtype", "set_num_threads", "no_grad", "set_grad_enabled"):
        return VUnknown(f, "unknown")
    return opaque_tensor(it, "torch." + f, args, kwargs, node)


def _is_unsq0(t, rank):
    want = "front" if rank == "front" else -rank
    at = t.single_atom()
    if at is not None and isinstance(at, T.App) and at.op == "unsq" and at.args[1] == want:
        return True
    if t.is_const():
        return True
    # a linear combination whose every monomial is an unsq(…, -rank) atom
    for mono in t.terms:
        if not mono:
            continue  # constants broadcast
        if len(mono) != 1 or mono[0][1] != 1:
            return False
        a = mono[0][0]
        if not (isinstance(a, T.App) and a.op == "unsq" and a.args[1] == want):
            return False
    return True


def _strip_unsq0(t):
    if t.is_const():
        return t
    out = T.ZERO
    for mono, c in t.terms.items():
        out = out + (c * mono[0][0].args[0] if mono else T.const(c))
    return out


# ------------------------------------------------------------------------------ numpy
def call_numpy(it, f, args, kwargs, node):
    from .ops import tensor_binop, dim_of, val_of_dim

    if f in ("sqrt", "exp", "log", "abs", "sign", "real", "imag", "conj", "ceil", "floor", "cos", "sin", "round", "absolute", "conjugate"):
        x = args[0]
        fn = {"sqrt": T.sqrt, "exp": T.exp, "log": T.log, "abs": T.absval, "absolute": T.absval, "cos": T.cos, "sin": T.sin}.get(f)
        if fn is None:
            fn = (lambda nm: (lambda t: T.app("np" + nm, t)))("conj" if f == "conjugate" else f)
        if isinstance(x, VTens):
            return it.fresh(fn(x.term) if x.term is not None else None, x.shape, "ndarray", node)
        if isinstance(x, VUnknown):
            t = getattr(x, "term", None)
            u = VUnknown("np.%s" % f, "unknown", x.origin)
            u.term = fn(t) if t is not None else None
            return u
        t = num_term(x)
        if t is None:
            return VUnknown("np." + f, "float")
        if f == "sign":
            c = t.const_value()
            if c is not None:
                return VConst((c > 0) - (c < 0))
        if f in ("ceil", "floor"):
            c = t.const_value()
            if c is not None:
                import math

                return VNum("npfloat", T.const(math.ceil(c) if f == "ceil" else math.floor(c)), pos=c > 0)
            return VNum("npfloat", T.app(f, t), pos=isinstance(x, VNum) and x.pos and f == "ceil")
        return VNum("npfloat", fn(t), pos=(f in ("sqrt", "exp") and (isinstance(x, VNum) and x.pos or (isinstance(x, VConst) and x.value > 0))) or f == "exp")
    if f == "split" and len(args) == 2 and isinstance(args[0], VTens) and isinstance(args[1], VList) and getattr(args[1].obj, "piece_ends", None) is not None \
            and getattr(args[1].obj, "drop_last", False) and (kwargs.get("axis") is None or const_of(kwargs.get("axis")) == (True, 0)):
        # np.split(x, cuts) with cuts the end positions of consecutive pieces of n rows (all but the last): the pieces of split(n)
        from .ops_tensor import split_list
        from .ops import val_of_dim

        n_t, l_t = args[1].obj.piece_ends
        if args[0].shape and args[0].shape[0] is not UNK and num_term(val_of_dim(args[0].shape[0])) == l_t:
            r = split_list(it, args[0], VNum("int", n_t, pos=True), None, node)
            if r is not None:
                return r
    if f in ("eye", "identity") and len(args) == 1 and const_of(args[0])[0] and isinstance(const_of(args[0])[1], int) and 1 <= const_of(args[0])[1] <= 4 and not kwargs:
        n_ = const_of(args[0])[1]
        rows = [T.stack0(*[T.ONE if i_ == j_ else T.ZERO for j_ in range(n_)]) for i_ in range(n_)]
        return it.fresh(T.stack0(*rows), (n_, n_), "ndarray", node)
    if f in ("array", "asarray"):
        x = args[0]
        return literal_tensor(it, x, node, kind="ndarray")
    if f == "arange":
        a = args
        shape = (arange_len(a),)
        desc = tuple(num_term(x) if num_term(x) is not None else T.sym("?") for x in a)
        return it.fresh(T.app("arange", *desc), shape, "ndarray", node)
    if f in ("ones", "zeros"):
        shape = shape_from_args([args[0]])
        return it.fresh(T.ONE if f == "ones" else T.ZERO, shape, "ndarray", node)
    if f in ("flip", "flipud", "fliplr") and args and isinstance(args[0], VTens) and args[0].rank is not None:
        # np.flip(x, axis) is x[..., ::-1, ...]: expressed as that index so that both spellings have one normal form
        from .ops import index_tensor

        x = args[0]
        ax = kwargs.get("axis", args[1] if len(args) > 1 else None)
        okx, axv = const_of(ax) if ax is not None else (True, None)
        if f == "flipud":
            okx, axv = True, 0
        if f == "fliplr":
            okx, axv = True, 1
        if okx and (axv is None or isinstance(axv, int)):
            axes = list(range(x.rank)) if axv is None else [axv % x.rank]
            items = [VSlice(VConst(None), VConst(None), VConst(-1)) if k in axes else VSlice(VConst(None), VConst(None), VConst(None)) for k in range(x.rank)]
            return index_tensor(it, x, items, node)
    if f == "broadcast_to" and len(args) == 2:
        shape = shape_from_args([args[1]])
        x = args[0]
        if isinstance(x, VTens) and shape is not None and x.shape is not None and tuple(x.shape) == tuple(shape):
            return x  # nothing to broadcast: the same values (numpy hands out a read-only view)
        xt = num_term(x) if not isinstance(x, VTens) else None
        if xt is not None and shape is not None:
            return it.fresh(xt, shape, "ndarray", node)  # a number repeated in every position
    if f == "flatnonzero" and len(args) == 1:
        r = call_numpy(it, "where", args, {}, node)
        return r.items[0] if isinstance(r, VTuple) else r
    if f == "where":
        if len(args) == 1:
            x = args[0]
            it.nnz_count = getattr(it, "nnz_count", 0) + 1
            # the number of selected positions is one named unknown (possibly 0), shared by every later use on this path
            nm_ = "nnz%d@%s" % (it.nnz_count, it.site(node))
            if isinstance(x, VTens) and x.term is not None:
                # the same test of the same values selects the same positions: one count, however often it is asked for
                nm_ = it.__dict__.setdefault("nnz_by_term", {}).setdefault(x.term, nm_)
            r = it.fresh(T.app("nonzero", x.term) if isinstance(x, VTens) and x.term is not None else None, (nm_,), "ndarray", node)
            if isinstance(x, VTens) and x.shape is not None and len(x.shape) == 1:
                from .ops import DIM_BOUNDS, val_of_dim

                bt = num_term(val_of_dim(x.shape[0]))
                if bt is not None:
                    DIM_BOUNDS[nm_] = bt
            r.obj.valkind = "index"
            return VTuple([r] * max(1, (x.rank or 1))) if isinstance(x, VTens) else VTuple([r])
        if len(args) == 3:
            return select_where(it, args, node, "ndarray")
        return opaque_tensor(it, "numpy.where", args, kwargs, node, kind="ndarray")
    if f == "unique":
        x = args[0]
        ri = kwargs.get("return_inverse")
        ax = kwargs.get("axis")
        t = tterm(x)
        sh = tshape(x)
        ushape = None
        if sh is not None:
            ushape = (UNK,) + tuple(sh[1:]) if not is_none(ax) else (UNK,)
        u = it.fresh(T.app("unique", t) if t is not None else None, ushape, "ndarray", node)
        u.obj.unique_of = x
        out = [u]
        rx = kwargs.get("return_index")
        if rx is not None and it.truth(rx):
            # first occurrences: one index per distinct value, not followed further
            fi = it.fresh(None, (UNK,), "ndarray", node)
            fi.obj.valkind = "index"
            out.append(fi)
        if ri is not None and it.truth(ri):
            inv = it.fresh(T.app("unique_inverse", t) if t is not None else None, (sh[0],) if sh else (UNK,), "ndarray", node)
            inv.obj.valkind = "index"
            inv.obj.inverse_of = x
            inv.obj.unique_partner = u.obj
            out.append(inv)
        rc = kwargs.get("return_counts")
        if rc is not None and it.truth(rc):
            out.append(it.fresh(None, (UNK,), "ndarray", node))
        return VTuple(out) if len(out) > 1 else u
    if f in ("prod", "sum", "mean", "all", "any"):
        x = args[0]
        if isinstance(x, VTens):
            return tensor_method(it, x, f, list(args[1:]), kwargs, node)
        items = it.concrete_items(x)
        if items is not None:
            from .ops import binop

            acc = VConst(1 if f == "prod" else 0)
            for e in items:
                acc = binop(it, "Mult" if f == "prod" else "Add", acc, e, node)
            return acc
        if isinstance(x, VList) and x.obj.elem is not None:
            return VNum("int", T.app("np" + f, num_term(x.obj.elem) or T.sym("?")), pos=True)
        return VUnknown("np." + f, "unknown")
    if f == "einsum":
        return do_einsum(it, args, kwargs, node, kind="ndarray")
    if f in ("matmul", "dot"):
        return torch_matmul(it, args, kwargs, node)
    if f.startswith("linalg."):
        return opaque_tensor(it, "numpy." + f, args, kwargs, node, kind="ndarray")
    if f == "loadtxt":
        it.effect("ext", "io:loadtxt", node, "np.loadtxt")
        a0 = args[0] if args else kwargs.get("fname")
        if isinstance(a0, VUnknown):
            fname = a0.tag  # the value handed in, not the spelling of the argument expression
        elif isinstance(a0, VConst):
            fname = repr(a0.value)
        else:
            fname = ast.unparse(node.args[0]) if node is not None and node.args else "?"
        # np.loadtxt squeezes: a file with one row or one column comes back 1-D (one number: 0-d) unless ndmin says otherwise
        okn, nd = const_of(kwargs.get("ndmin", VConst(0)))
        oku, unp = const_of(kwargs.get("unpack", VConst(False)))
        ft = T.sym("file(%s)" % fname)
        if oku and unp:
            ft = T.app("t", ft)  # unpack=True: the table comes back transposed (one row per column of the file)
        elif not oku:
            ft = None
        r = it.fresh(ft, (UNK,) * nd if okn and isinstance(nd, int) and nd >= 1 else None, "ndarray", node)
        r.obj.loadtxt_kwargs = kwargs
        return r
    if f.startswith("random."):
        it.effect("ext", "rng:numpy", node, "numpy." + f)
        if f in ("random.randint", "random.choice", "random.permutation"):
            # value-wise the same kinds of draws as the torch functions (their *source* is C14's business)
            it.rng_counter = getattr(it, "rng_counter", 0) + 1
            a = list(args)
            size = kwargs.get("size")
            hi = (a[1] if len(a) > 1 and f == "random.randint" and not isinstance(a[1], VTuple) else a[0]) if a else kwargs.get("high")
            if size is None and f == "random.randint" and len(a) > 1 and isinstance(a[-1], VTuple):
                size = a[-1]
            shape = shape_from_args([size]) if size is not None else (((dim_of(a[0]),) if f == "random.permutation" and a else None))
            op = "randperm" if f == "random.permutation" else "randint"
            r = it.fresh(T.app(op, num_term(hi) if num_term(hi) is not None else T.sym("?"), T.sym("draw#%d" % it.rng_counter)), shape, "ndarray", node)
            r.obj.valkind = "perm" if op == "randperm" else "index"
            return r
        return opaque_tensor(it, "numpy." + f, args, kwargs, node, kind="ndarray")
    if f in ("uint8", "float32", "float64", "int64", "complex128", "bool_", "ndarray", "float", "int", "complex", "str_"):
        if args:
            return args[0]
        return VExt("numpy." + f)
    return opaque_tensor(it, "numpy." + f, args, kwargs, node, kind="ndarray")


# ------------------------------------------------------------------------------ builtins
def kind_matches(it, v, tv):
    """isinstance(v, tv) -> True/False/None."""
    if isinstance(tv, VTuple):
        res = [kind_matches(it, v, x) for x in tv.items]
        if any(r is True for r in res):
            return True
        if all(r is False for r in res):
            return False
        return None
    if isinstance(v, VUnknown):
        if v.kind in ("starred",):
            return None
        declared = getattr(v, "isa", None)
        if declared is not None:
            nm = tv.cls.name if isinstance(tv, VClass) else (tv.name if isinstance(tv, VExt) else None)
            if nm in declared:
                return declared[nm]
        return None
    if isinstance(tv, VClass):
        if isinstance(v, VObj) and v.inst.cls is not None:
            return tv.cls in v.inst.cls.in_repo_mro()
        if isinstance(v, VObj):
            return None
        return False
    if isinstance(tv, VExt):
        n = tv.name
        if n in ("torch.Tensor",):
            return isinstance(v, VTens) and v.kind == "tensor"
        if n in ("numpy.ndarray",):
            return isinstance(v, VTens) and v.kind == "ndarray"
        if n == "builtins.bool":
            return v.kind == "bool"
        if n == "builtins.int":
            if v.kind in ("int", "bool"):
                return True
            return False if not isinstance(v, VUnknown) else None
        if n == "builtins.float":
            return v.kind in ("float", "npfloat")
        if n == "builtins.str":
            return v.kind == "str"
        if n == "builtins.dict":
            return isinstance(v, VDict)
        if n == "builtins.list":
            return isinstance(v, VList)
        if n == "builtins.tuple":
            return isinstance(v, VTuple)
        if isinstance(v, VObj) and v.inst.cls is not None:
            return v.inst.cls.is_subclass_of(n)
        if isinstance(v, VObj) and v.inst.ext:
            return v.inst.ext == n or None
        return False
    return None


_PURE_BUILTINS = {"sorted", "set", "frozenset", "list", "tuple", "str", "repr", "reversed", "len", "hash"}


def call_builtin(it, f, args, kwargs, node):
    r = _call_builtin(it, f, args, kwargs, node)
    if f in _PURE_BUILTINS and not kwargs and args:
        # a value nobody followed, built by a pure builtin from values that were: the same call on the same values gives it again
        from .values import fingerprint as _fp

        tgt = r.obj if isinstance(r, VList) else r
        if (isinstance(r, VUnknown) or (isinstance(r, VList) and r.obj.items is None)) and getattr(tgt, "fp", None) is None and not isinstance(args[0], VGen):
            fa_ = [_fp(a) for a in args]
            if all(x is not None for x in fa_):
                try:
                    tgt.fp = ("call", f) + tuple(fa_)
                except AttributeError:
                    pass
    return r


def _call_builtin(it, f, args, kwargs, node):
    from .ops import dim_of, val_of_dim, binop, compare, num_compare
    from .interp import RaiseEx

    if f == "len":
        x = args[0]
        if isinstance(x, VTens):
            if x.shape is not None and len(x.shape) >= 1:
                return val_of_dim(x.shape[0])
            v = VNum("int", T.sym("len(T%d)" % x.obj.id), nonneg=True)
            return v
        items = it.concrete_items(x) if not isinstance(x, VRange) else it.concrete_items(x)
        if items is not None and not (isinstance(x, VDict) and x.obj.extra_unknown):
            return VConst(len(items))
        if isinstance(x, VConst) and isinstance(x.value, str):
            return VConst(len(x.value))
        if isinstance(x, VObj) and x.inst.cls is not None and x.inst.cls.find_method("__len__"):
            return it.call_method(x, "__len__", [], {}, node)
        tag = getattr(x, "tag", type(x).__name__)
        if isinstance(x, VList):
            # one unknown per list object (two lists of unknown contents have unrelated lengths); the number is the list's rank
            # among the unknown lists whose length was asked for on this path, so that it is the same on every run
            reg = it.__dict__.setdefault("_len_ids", {})
            if id(x.obj) not in reg:
                reg[id(x.obj)] = (len(reg), x.obj)
            tag = "VList" if reg[id(x.obj)][0] == 0 else "VList#%d" % reg[id(x.obj)][0]
        v = VNum("int", T.sym("len(%s)" % tag), nonneg=True)
        v.len_of = x
        return v
    if f in ("int", "float"):
        if not args:
            return VConst(0 if f == "int" else 0.0)
        x = args[0]
        if isinstance(x, VConst):
            try:
                return VConst(int(x.value) if f == "int" else float(x.value))
            except Exception:
                return VUnknown(f, f)
        if isinstance(x, VNum):
            t = x.term
            cv = t.const_value() if t is not None else None
            if cv is not None:
                return VConst(int(cv) if f == "int" else float(cv))
            if f == "int" and x.kind != "int":
                at = t.single_atom() if t is not None else None
                if not (at is not None and isinstance(at, T.App) and at.op in ("ceil", "floor")):
                    t = T.app("trunc", t) if t is not None else None
            r = VNum(f, t, pos=x.pos if f == "float" or x.kind == "int" or (t is x.term) else False, nonneg=x.nonneg)
            if hasattr(x, "dim") and f == "int":
                r.dim = x.dim
            return r
        if isinstance(x, VTens):
            return VNum(f, x.term)
        if isinstance(x, VUnknown):
            r = VNum(f, T.sym("%s(%s)" % (f, x.tag)))
            return r
        return VUnknown(f, f)
    if f == "bool":
        t = it.truth(args[0]) if args else False
        if t is None and args:
            a0 = args[0]
            if isinstance(a0, VNum) and a0.term is not None:
                return a0 if a0.kind == "bool" else VNum("bool", T.app("cmp_NotEq", a0.term, T.ZERO))
            if isinstance(a0, VTens) and a0.term is not None and a0.shape is not None and all(d == 1 for d in a0.shape):
                at = a0.term.single_atom()
                # bool(t) of a one-element tensor: a symbolic boolean when t is itself a truth value (any / all / comparison), t != 0 otherwise
                if isinstance(at, T.App) and at.op in ("any", "all", "tensor_equal", "lnot"):
                    return VNum("bool", a0.term)
                return VNum("bool", T.app("cmp_NotEq", a0.term, T.ZERO))
        return VConst(t) if t is not None else VUnknown("bool", "bool")
    if f == "str" or f == "repr" or f == "format":
        if args and isinstance(args[0], VConst):
            return VConst(str(args[0].value) if f == "str" else repr(args[0].value))
        if args and isinstance(args[0], VObj) and args[0].inst.cls is not None:
            m = args[0].inst.cls.find_method("__%s__" % f)
            if m is not None:
                return it.call_function(VFunc(m, args[0]), [], {}, node)
        u = VUnknown("str", "str")
        u.not_none = True
        return u
    if f in ("list", "tuple") and args and isinstance(args[0], VGen):
        # exhaust the generator now; the collected values are the objects it yielded (not copies)
        out = it.new_list([])

        def collect(v):
            out.obj.items.append(v) if out.obj.items is not None else None

        it.run_generator(args[0], collect, node)
        if f == "tuple" and out.obj.items is not None:
            return VTuple(list(out.obj.items))
        return out
    if f == "list":
        if not args:
            return it.new_list([])
        items = it.concrete_items(args[0])
        if items is not None:
            return it.new_list(list(items))
        if isinstance(args[0], VBound) and args[0].name == "keys_view":
            d = args[0].recv.obj
            if d.items is not None and not d.extra_unknown:
                return it.new_list([VConst(k) for k in d.items])
        l = it.new_list(None)
        l.obj.source = args[0]
        if isinstance(args[0], VList):
            l.obj.elem = args[0].obj.elem
            for a_ in ("comp_iter", "comp_node", "filtered_by_key", "piece_ends", "drop_last"):
                if hasattr(args[0].obj, a_):
                    setattr(l.obj, a_, getattr(args[0].obj, a_))
        from .values import VRange as _VRange
        if isinstance(args[0], _VRange):
            # list(range(n)) with n not known: [i for i in range(n)]
            from .interp import _count_term

            l.obj.elem = it.loop_elem(args[0], False, node)
            l.obj.comp_node = node
            l.obj.comp_iter = _count_term(args[0])
        return l
    if f == "tuple":
        if not args:
            return VTuple([])
        items = it.concrete_items(args[0])
        if items is not None:
            return VTuple(items)
        u = VUnknown("tuple", "tuple")
        from .values import fingerprint as _fp

        fa_ = _fp(args[0])
        if fa_ is not None:
            u.fp = ("tuple-of", fa_)
        return u
    if f == "dict":
        if args and isinstance(args[0], VDict):
            src = args[0].obj
            d = it.new_dict(dict(src.items) if src.items is not None else None)
            d.obj.extra_unknown = src.extra_unknown
            if src.origin != "fresh":
                d.obj.copied_from = src
        elif args and isinstance(args[0], VUnknown):
            d = it.new_dict({})
            d.obj.extra_unknown = True
        elif args:
            # an iterable of (key, value) pairs: the entries when every pair and key is known, otherwise entries nobody followed
            from .values import dict_key

            d = it.new_dict({})
            pairs = it.concrete_items(args[0])
            if pairs is None:
                d.obj.extra_unknown = True
            else:
                for pr in pairs:
                    two = it.concrete_items(pr) if isinstance(pr, (VTuple, VList)) else None
                    okk, kk = dict_key(two[0]) if two is not None and len(two) == 2 else (False, None)
                    if not okk:
                        d.obj.extra_unknown = True
                        continue
                    d.obj.items[kk] = two[1]
        else:
            d = it.new_dict({})
        star = kwargs.pop("**", None) if "**" in kwargs else None
        if star is not None:
            d.obj.extra_unknown = True
        for k, v in kwargs.items():
            d.obj.items[k] = v
        return d
    if f == "dict.fromkeys":
        val = args[1] if len(args) > 1 else VConst(None)
        keys = it.concrete_items(args[0]) if args else None
        if keys is not None and all(const_of(k)[0] for k in keys):
            return it.new_dict({const_of(k)[1]: val for k in keys})
        d = it.new_dict({})
        d.obj.extra_unknown = True
        d.obj.elem = val
        d.obj.elem_shared = isinstance(val, (VList, VDict))  # dict.fromkeys(keys, []) : ONE list, the value of every key
        return d
    if f in ("set", "frozenset"):
        u = VUnknown(f, "set")
        u.source = args[0] if args else None
        return u
    if f == "range":
        a = list(args)
        if len(a) == 1:
            return VRange(VConst(0), a[0], VConst(1))
        if len(a) == 2:
            return VRange(a[0], a[1], VConst(1))
        return VRange(a[0], a[1], a[2])
    if f == "enumerate":
        items = it.concrete_items(args[0])
        start = 0
        if len(args) > 1 or "start" in kwargs:
            ok, start = const_of(args[1] if len(args) > 1 else kwargs["start"])
        if items is not None:
            r_ = VIter([VTuple([VConst(i + start), x]) for i, x in enumerate(items)])
            if getattr(args[0], "one_shot", False):
                r_.one_shot, r_.wraps = True, args[0]
            return r_
        u = VUnknown("enumerate", "iter")
        src = args[0]
        if getattr(src, "one_shot", False):
            u.one_shot, u.wraps = True, src  # enumerate over an iterator object consumes that object
        st_t = T.const(start) if isinstance(start, int) else T.sym("start?")
        # the position is the loop's own position symbol i@<site> (the same number an item of a list built over range(0, n) is
        # numbered by)
        u.elem = lambda: VTuple([VNum("int", T.sym("i@%s" % it.site(node)) + st_t, nonneg=isinstance(start, int) and start >= 0), it.loop_elem(src, False, node)])
        u.elem_first = lambda: VTuple([VConst(start) if isinstance(start, int) else VNum("int", st_t), it.loop_elem(src, True, node)])
        u.source = src
        return u
    if f == "zip":
        lists = [it.concrete_items(a) for a in args]
        if all(l is not None for l in lists):
            r_ = VIter([VTuple(list(xs)) for xs in zip(*lists)])
            r_.one_shot = True
            return r_
        u = VUnknown("zip", "iter")
        u.one_shot = True
        srcs = list(args)
        u.sources = srcs
        u.elem = lambda: VTuple([it.loop_elem(s, False, node) for s in srcs])
        u.elem_first = lambda: VTuple([it.loop_elem(s, True, node) for s in srcs])
        return u
    if f == "reversed":
        items = it.concrete_items(args[0])
        if items is not None:
            return VIter(list(reversed(items)))
        if isinstance(args[0], VRange):
            u = VUnknown("reversed_range", "iter")
            r = args[0]
            u.elem = lambda: VNum("int", T.sym("i@%s" % it.site(node)), nonneg=True)
            u.source = r
            u.reversed = True
            return u
        u = VUnknown("reversed", "iter")
        u.source = args[0]
        return u
    if f in ("iter",):
        return args[0]
    if f == "isinstance":
        r = kind_matches(it, args[0], args[1])
        return VConst(r) if r is not None else VUnknown("isinstance", "bool")
    if f == "hasattr":
        ok, nm = const_of(args[1])
        declared = getattr(args[0], "has_attrs", None)  # an unknown object whose interface the context declares (e.g. an open file)
        if ok and declared is not None:
            return VConst(nm in declared)
        if ok and isinstance(args[0], VUnknown) and args[0].kind == "str":
            return VConst(hasattr("", nm))
        r = it.has_attr(args[0], nm) if ok else None
        return VConst(r) if r is not None else VUnknown("hasattr", "bool")
    if f == "getattr":
        ok, nm = const_of(args[1])
        if ok and isinstance(nm, str):
            try:
                return it.get_attr(args[0], nm, node)
            except RaiseEx as e:
                if e.exc_name == "AttributeError" and len(args) > 2:
                    return args[2]
                raise
        return VUnknown("getattr", "unknown", getattr(args[0], "origin", None))
    if f == "id" and len(args) == 1:
        # one number per object, the same every time it is asked for (numbered in the order of asking: stable between runs)
        reg = it.__dict__.setdefault("_id_numbers", {})
        x = args[0]
        key = id(x.inst) if isinstance(x, VObj) else (id(x.obj) if isinstance(x, (VTens, VList, VDict)) and not getattr(x, "view", None) else None)
        if key is not None:
            if key not in reg:
                reg[key] = (10 ** 6 + len(reg), x)
            return VConst(reg[key][0])
    if f == "property":
        inst = Instance(None)
        inst.ext = "builtins.property"
        inst.attrs["fget"] = args[0] if args else kwargs.get("fget", VConst(None))
        inst.attrs["fset"] = args[1] if len(args) > 1 else kwargs.get("fset", VConst(None))
        return VObj(inst)
    if f == "setattr":
        ok, nm = const_of(args[1])
        if ok:
            it.set_attr(args[0], nm, args[2], node)
        else:
            it.effect("setattr", args[0].inst if isinstance(args[0], VObj) else "unknown", node, "setattr(?)")
        return VConst(None)
    if f in ("min", "max"):
        vals = list(args)
        if len(vals) == 1:
            items = it.concrete_items(vals[0])
            if items is None:
                return VUnknown(f, "unknown")
            vals = items
        if all(isinstance(v, VConst) for v in vals):
            return VConst((min if f == "min" else max)(v.value for v in vals))
        ts = [num_term(v) for v in vals]
        if all(t is not None for t in ts):
            r = VNum("int" if all(v.kind == "int" for v in vals) else "float", T.app(f, *sorted(ts, key=repr)), pos=all(_pos(v) for v in vals))
            r.minmax = (f, vals)
            return r
        return VUnknown(f, "unknown")
    if f == "abs":
        x = args[0]
        if isinstance(x, VConst):
            return VConst(abs(x.value))
        if isinstance(x, VNum):
            return VNum(x.kind, T.absval(x.term) if x.term is not None else None, nonneg=True)
        if isinstance(x, VTens):
            return tensor_method(it, x, "abs", [], {}, node)
        if isinstance(x, VUnknown):
            u = VUnknown("abs", x.kind, x.origin)
            t = getattr(x, "term", None)
            u.term = T.absval(t) if t is not None else None
            return u
        return VUnknown("abs", "unknown")
    if f == "sum":
        items = it.concrete_items(args[0])
        if items is not None:
            acc = args[1] if len(args) > 1 else VConst(0)
            for e in items:
                acc = binop(it, "Add", acc, e, node)
            return acc
        g = args[0]
        el = getattr(g, "elem", None)
        if isinstance(g, VUnknown) and g.tag == "genexp" and el is not None and len(args) == 1:
            # sum(<generator expression over an iteration the analyser summarises>): the same accumulation a loop `acc += elem` gives
            et = el.term if isinstance(el, VTens) else num_term(el)
            if et is not None:
                cnt = getattr(g, "comp_iter", None)
                t = T.P(T.App("accum", (getattr(g, "comp_site", it.site(node)), cnt, et, et)))
                if isinstance(el, VTens):
                    r = it.fresh(t, el.shape, el.kind, node)
                    r.obj.fw = el.obj.float_width()
                    return r
                return VNum(el.kind if isinstance(el, VNum) else "float", t)
        return VUnknown("sum", "unknown")
    if f == "round":
        x = args[0]
        t = num_term(x)
        return VNum("int" if len(args) == 1 else "float", T.app("round", t) if t is not None else None)
    if f == "print":
        return VConst(None)
    if f == "callable":
        x = args[0]
        if isinstance(x, (VFunc, VClass, VExt, VBound)):
            return VConst(True)
        if isinstance(x, VConst):
            return VConst(False)
        if isinstance(x, (VDict, VList, VTuple, VTens, VNum)):
            return VConst(False)
        if isinstance(x, VObj) and x.inst.cls is not None:
            return VConst(x.inst.cls.find_method("__call__") is not None)
        c = getattr(x, "callable", None)
        if c is not None:
            return VConst(c)
        return VUnknown("callable", "bool")
    if f == "open":
        it.effect("ext", "io:open", node, "open")
        inst = Instance(None)
        inst.ext = "file"
        return VObj(inst)
    if f == "type":
        x = args[0]
        if isinstance(x, VObj) and x.inst.cls is not None:
            return VClass(x.inst.cls)
        k = x.kind if isinstance(x, (VNum, VConst)) else None
        names = {"float": "builtins.float", "int": "builtins.int", "bool": "builtins.bool", "str": "builtins.str", "none": "builtins.NoneType", "npfloat": "numpy.float64"}
        if k in names:
            return VExt(names[k])
        if isinstance(x, VTens):
            return VExt("torch.Tensor" if x.kind == "tensor" else "numpy.ndarray")
        if isinstance(x, VDict):
            return VExt("builtins.dict")
        if isinstance(x, VList):
            return VExt("builtins.list")
        return VUnknown("type", "unknown")
    if f in ("all", "any"):
        items = it.concrete_items(args[0])
        if items is not None:
            ts = [it.truth(x) for x in items]
            if all(t is not None for t in ts):
                return VConst(all(ts) if f == "all" else any(ts))
        return VUnknown(f, "bool")
    if f == "sorted":
        items = it.concrete_items(args[0])
        if items is not None and all(isinstance(x, VConst) for x in items):
            return it.new_list([VConst(v) for v in sorted(x.value for x in items)])
        return it.new_list(None)
    if f in ("ValueError", "TypeError", "RuntimeError", "KeyError", "AttributeError", "Exception", "NotImplementedError",
             "AssertionError", "IndexError", "ZeroDivisionError"):
        inst = Instance(None)
        inst.ext = "builtins." + f
        return VObj(inst)
    if f in ("ResourceWarning", "DeprecationWarning", "UserWarning", "RuntimeWarning"):
        return VExt("builtins." + f)
    if f == "complex":
        return VUnknown("complex", "complex")
    if f == "slice":
        a = list(args) + [None] * (3 - len(args))
        if len(args) == 1:
            return VSlice(None, a[0], None)
        return VSlice(a[0], a[1], a[2])
    if f in ("id", "hash"):
        return VNum("int", T.sym("%s@%s" % (f, it.site(node))))
    if f == "next":
        return VUnknown("next", "unknown")
    if f == "map" and len(args) >= 2 and not kwargs:
        # map over iterables whose items are known: the results in order, as a one-shot iterator (the calls are made when the map
        # object is consumed; nothing observable happens in between in the code this models)
        cols = [it.concrete_items(a) for a in args[1:]]
        if all(c is not None for c in cols) and all(len(c) <= 16 for c in cols):
            out = [it.call_value(args[0], list(row), {}, node) for row in zip(*cols)]
            r_ = VIter(out)
            r_.one_shot = True
            return r_
        return VUnknown(f, "iter")
    if f == "map" or f == "filter":
        return VUnknown(f, "iter")
    if f == "issubclass":
        return VUnknown("issubclass", "bool")
    raise Unsupported("builtin %s" % f, node, it.site(node))


def _pos(v):
    if isinstance(v, VConst):
        return isinstance(v.value, (int, float)) and v.value > 0
    return isinstance(v, VNum) and v.pos


# ------------------------------------------------------------------------------ bound methods
def call_bound(it, recv, name, args, kwargs, node):
    from .ops import contains
    from .interp import RaiseEx

    if isinstance(recv, VTens):
        try:
            return tensor_method(it, recv, name, args, kwargs, node)
        except ShapeMismatch as e:
            it.shape_errors.append((it.site(node), "%s: %s" % (name, e)))
            return it.fresh(None, None, recv.kind, node)
    if isinstance(recv, VUnknown) and getattr(recv, "storage_of", None) is not None and name == "data_ptr":
        o = recv.storage_of
        roots = sorted(r.id for r in o.roots())
        # the address of the storage: equal for a tensor and all its views, different for separately allocated tensors;
        # 'maybe' when the tensor may or may not share storage with another one (maybe-views)
        tag = "ptr:S%d" % o.id if len(roots) == 1 else "ptr:S?%s" % "_".join(map(str, roots))
        return VNum("int", T.sym(tag), nonneg=True)
    if isinstance(recv, VDict):
        return dict_method(it, recv, name, args, kwargs, node)
    if isinstance(recv, VList):
        return list_method(it, recv, name, args, kwargs, node)
    if isinstance(recv, VConst) and isinstance(recv.value, str):
        s = recv.value
        if not hasattr(it, "str_calls"):
            it.str_calls = []
        it.str_calls.append((name, list(args), s, it.site(node)))
        consts = [const_of(a) for a in args]
        if name in ("strip", "lower", "upper", "format", "replace", "startswith", "endswith", "split", "lstrip", "rstrip", "title") and all(o for o, _ in consts) and not kwargs:
            try:
                r = getattr(s, name)(*[c for _, c in consts])
                if isinstance(r, list):
                    return it.new_list([VConst(x) for x in r])
                return VConst(r)
            except Exception:
                pass
        if name == "join":
            u = VUnknown("joined", "str")
            u.not_none = True
            from .values import fingerprint as _fp

            fa_ = _fp(args[0]) if args else None
            if fa_ is not None:
                u.fp = ("join", s, fa_)
            return u
        u = VUnknown("str.%s" % name, "str")
        u.not_none = True
        u.fmt = (s, args)
        return u
    if isinstance(recv, VUnknown):
        if recv.kind == "str":
            u = VUnknown("%s.%s()" % (recv.tag, name), "str")
            u.not_none = True
            if name in ("endswith", "startswith"):
                u.kind = "bool"
            return u
        return call_opaque(it, VUnknown("%s.%s" % (recv.tag, name), "unknown", recv.origin), [recv] + list(args), kwargs, node)
    if isinstance(recv, VObj):
        return ext_method(it, recv, name, args, kwargs, node)
    if isinstance(recv, VTuple):
        if name == "index" or name == "count":
            return VUnknown(name, "int")
    if isinstance(recv, VNum) or isinstance(recv, VConst):
        if name == "item":
            return recv
        if name in ("real", "conjugate"):
            return recv
        if name == "sqrt":
            return VNum("npfloat", T.sqrt(num_term(recv)))
        if name == "is_integer":
            return VUnknown("is_integer", "bool")
        if (isinstance(recv, VNum) or isinstance(recv.value, (int, float, bool, type(None)))) and not name.startswith("__"):
            raise RaiseEx("AttributeError", it.site(node), "'%s' object has no attribute '%s'" % (recv.kind, name), True)
    if isinstance(recv, VIter) and name == "__iter__":
        return recv
    raise Unsupported("method %s on %r" % (name, recv), node, it.site(node))


def dict_method(it, dv, name, args, kwargs, node):
    from .interp import RaiseEx

    d = dv.obj
    if name == "keys":
        return VBound(dv, "keys_view") if False else _keys_view(it, dv)
    if name == "items":
        if d.items is not None and not d.extra_unknown:
            return VIter([VTuple([_kv(k), v]) for k, v in d.items.items()])
        u = VUnknown("items(%s)" % d.origin, "iter", d.origin)
        el = getattr(d, "elem", None)
        known = list(d.items.items()) if d.items else []
        u.elem = lambda: VTuple([VUnknown("key(%s)" % d.origin, "str"), el if el is not None else (known[0][1] if known else VUnknown("val(%s)" % d.origin, "unknown", d.origin))])
        u.known = known
        u.of_dict = dv
        return u
    if name == "values":
        if d.items is not None and not d.extra_unknown:
            return VIter(list(d.items.values()))
        return VUnknown("values(%s)" % d.origin, "iter", d.origin)
    if name == "get":
        from .values import dict_key

        ok, k = dict_key(args[0])
        dflt = args[1] if len(args) > 1 else VConst(None)
        if d.items is not None and ok:
            if k in d.items:
                return d.items[k]
            if not d.extra_unknown:
                return dflt
        if d.items and not ok and not d.extra_unknown and all(isinstance(x, VTens) for x in d.items.values()):
            # a key that is not known, looked up in a dictionary whose entries are: either it is not there (the default), or the
            # result is one of the entries - whatever is then written through it is written into an entry
            if not it.decide(None, node, "dict.get: the key is present"):
                return dflt
            vals = list(d.items.values())
            shapes = {x.shape for x in vals}
            terms = [x.term for x in vals]
            kt = getattr(args[0], "term", None) or T.sym("key:%s" % getattr(args[0], "tag", "?"))
            t = T.app("select", kt, tuple(terms)) if all(x is not None for x in terms) else None
            r = it.fresh(t, shapes.pop() if len(shapes) == 1 else None, vals[0].kind, node)
            for x in vals:
                r.obj.may_alias.add(x.obj)
            return r
        u = VUnknown("get(%s)" % d.origin, "unknown", d.origin)
        u.got_from, u.key = d, (args[0] if args else None)
        return u
    if name == "copy":
        nd = it.new_dict(dict(d.items) if d.items is not None else None)
        nd.obj.extra_unknown = d.extra_unknown
        nd.obj.elem = getattr(d, "elem", None)
        if d.origin != "fresh":
            nd.obj.copied_from = d
        return nd
    if name in ("update", "pop", "setdefault", "clear", "popitem", "__setitem__", "__delitem__"):
        it.effect("container", d, node, "dict.%s" % name)
        if name == "update":
            src = args[0] if args else None
            if isinstance(src, VDict) and src.obj.items is not None and d.items is not None:
                d.items.update(src.obj.items)
                d.extra_unknown = d.extra_unknown or src.obj.extra_unknown
            elif src is not None:
                # an iterable of (key, value) pairs
                from .values import dict_key

                pairs = it.concrete_items(src) if isinstance(src, (VList, VTuple, VIter)) else None
                done = False
                if pairs is not None and d.items is not None:
                    kv = []
                    for pr in pairs:
                        two = it.concrete_items(pr) if isinstance(pr, (VTuple, VList)) else None
                        if two is None or len(two) != 2:
                            kv = None
                            break
                        okk, kk = dict_key(two[0])
                        if not okk:
                            kv = None
                            break
                        kv.append((kk, two[1]))
                    if kv is not None:
                        for kk, vv in kv:
                            d.items[kk] = vv
                        done = True
                if not done:
                    d.extra_unknown = True
            star = kwargs.get("**")
            for k, v in kwargs.items():
                if k != "**" and d.items is not None:
                    d.items[k] = v
            if star is not None:
                if isinstance(star, VDict) and star.obj.items is not None and d.items is not None:
                    d.items.update(star.obj.items)
                    d.extra_unknown = d.extra_unknown or star.obj.extra_unknown
                else:
                    d.extra_unknown = True
            return VConst(None)
        if name == "pop":
            ok, k = const_of(args[0])
            if d.items is not None and ok and k in d.items:
                return d.items.pop(k)
            if d.items is not None and ok and not d.extra_unknown:
                if len(args) > 1:
                    return args[1]
                raise RaiseEx("KeyError", it.site(node), repr(k))
            return VUnknown("pop(%s)" % d.origin, "unknown", d.origin)
        if name == "clear":
            d.items = {}
            d.extra_unknown = False
            return VConst(None)
        if name == "setdefault":
            ok, k = const_of(args[0])
            if d.items is not None and ok:
                if k not in d.items:
                    d.items[k] = args[1] if len(args) > 1 else VConst(None)
                return d.items[k]
            if d.items is not None and not d.items and len(args) > 1 and isinstance(args[1], (VList, VDict)):
                # buckets: d.setdefault(key, []) with keys that are not known - every key gets a container of its own (the
                # default is evaluated anew on every call); one generic container stands for "the container of this key"
                if getattr(d, "elem", None) is None:
                    d.elem = args[1]
                    d.extra_unknown = True
                    d.elem_per_key = True
                    args[1].obj.per_key_of = d
                return d.elem
            return VUnknown("setdefault", "unknown")
        return VConst(None)
    raise Unsupported("dict method %s" % name, node, it.site(node))


def _kv(k):
    if isinstance(k, tuple) and len(k) == 2 and k[0] == "sym":
        return VUnknown(k[1], "str")
    return VConst(k)


def _keys_view(it, dv):
    d = dv.obj
    if d.items is not None and not d.extra_unknown:
        return VIter([_kv(k) for k in d.items])
    b = VBound(dv, "keys_view")
    return b


def list_method(it, lv, name, args, kwargs, node):
    l = lv.obj
    if name in ("append", "extend", "insert", "sort", "reverse", "pop", "remove", "clear"):
        it.effect("container", l, node, "list.%s" % name)
        if getattr(l, "fp", None) is not None:
            l.fp = None  # no longer the value it was built as
        if l.items is None:
            return VUnknown("list.%s" % name, "unknown") if name == "pop" else VConst(None)
        if name == "append":
            l.items.append(args[0])
        elif name == "extend":
            items = it.concrete_items(args[0])
            if items is None:
                l.items = None
            else:
                l.items.extend(items)
        elif name == "insert":
            ok, k = const_of(args[0])
            if ok:
                l.items.insert(k, args[1])
            else:
                l.items = None
        elif name == "pop":
            if l.items:
                ok, k = const_of(args[0]) if args else (True, -1)
                if ok:
                    return l.items.pop(k)
            l.items = None
            return VUnknown("list.pop", "unknown")
        elif name == "clear":
            l.items = []
        else:
            l.items = None
        return VConst(None)
    if name == "copy":
        return it.new_list(list(l.items) if l.items is not None else None)
    if name in ("index", "count"):
        return VUnknown("list.%s" % name, "int")
    if name == "__iter__":
        return lv
    raise Unsupported("list method %s" % name, node, it.site(node))


# ------------------------------------------------------------------------------ external objects / bases
MODULE_API = None


def module_api():
    global MODULE_API
    if MODULE_API is None:
        from .model import module_api_table

        MODULE_API = module_api_table()
    return MODULE_API


OBJECT_ATTRS = ("__init__", "__class__", "__dict__", "__setattr__", "__repr__", "__str__", "__eq__", "__hash__", "__ne__", "__doc__", "__module__")


def ext_base_has(ext_bases, attr):
    if attr in OBJECT_ATTRS:
        return True
    for e in ext_bases:
        if e == "torch.nn.Module":
            if attr in module_api()[0]:
                return True
        elif e in ("abc.ABC", "object"):
            continue
        elif e == "collections.abc.MutableSequence":
            if attr in ("append", "extend", "pop", "remove", "reverse", "index", "count", "clear", "__iadd__", "__contains__", "__reversed__"):
                return True
        else:
            return True  # unknown external base: assume it provides the attribute
    return False


def ext_base_attr(it, objv, ext_bases, attr, node):
    for e in list(ext_bases) + ["object"]:
        if e == "torch.nn.Module":
            if attr == "_parameters":
                # nn.Module keeps its parameters in this ordered dict (a snapshot is enough for reads)
                return it.new_dict({n: p for n, p in module_params(it, objv)})
            if attr in module_api()[0]:
                return VBound(objv, "nn.Module." + attr)
        elif e in ("abc.ABC", "object"):
            if attr in OBJECT_ATTRS:
                return VBound(objv, "object." + attr)
        elif e == "collections.abc.MutableSequence":
            if attr in ("append", "extend", "pop", "remove", "reverse", "index", "count", "clear", "__init__"):
                return VBound(objv, "MutableSequence." + attr)
        else:
            return VBound(objv, e + "." + attr)
    return None


def module_params(it, objv):
    """Parameters of a module instance in registration order."""
    inst = objv.inst
    order = inst.attrs.get("__param_order__", [])
    return [(n, inst.attrs[n]) for n in order if isinstance(inst.attrs.get(n), VTens)]


def ext_obj_attr(it, objv, attr, node):
    inst = objv.inst
    if attr in inst.attrs:
        return inst.attrs[attr]
    if attr == "_parameters" and inst.cls is not None:
        # nn.Module keeps its parameters in this dict (a snapshot is enough for reads)
        d = it.new_dict({n: p for n, p in module_params(it, objv)})
        return d
    return VBound(objv, attr)


def ext_method(it, objv, name, args, kwargs, node):
    from .interp import RaiseEx

    inst = objv.inst
    if name.startswith("nn.Module."):
        m = name[len("nn.Module."):]
        if m == "__init__":
            return VConst(None)
        if m in ("to", "cpu", "cuda", "double", "float", "train", "eval", "requires_grad_"):
            return objv
        if m == "parameters":
            ps = module_params(it, objv)
            l = VIter([p for _, p in ps])
            return l
        if m == "named_parameters":
            return VIter([VTuple([VConst(n), p]) for n, p in module_params(it, objv)])
        if m == "state_dict":
            d = it.new_dict({n: p for n, p in module_params(it, objv)}, origin="state_dict")
            return d
        if m == "load_state_dict":
            src = args[0] if args else kwargs.get("state_dict")
            assign = kwargs.get("assign", args[2] if len(args) > 2 else VConst(False))
            share = it.truth(assign) is not False  # assign=True keeps the given tensors as the parameters' storage
            for n, p in module_params(it, objv):
                it.effect("params", p.obj, node, "load_state_dict")
                sv = src.obj.items.get(n) if isinstance(src, VDict) and src.obj.items is not None else None
                if isinstance(sv, VTens):
                    p.obj.term = sv.term
                    if share:
                        p.obj.may_alias.add(sv.obj)
                else:
                    # (which entry of which file: the source's own description, e.g. load['rbm_am'])
                    p.obj.term = T.sym("loaded:%s:%s" % (getattr(src, "tag", "?"), n) if isinstance(src, VUnknown) and getattr(src, "tag", None) else "loaded:%s" % n)
            return VConst(None)
        if m == "zero_grad":
            for n, p in module_params(it, objv):
                it.effect("grad", p.obj, node, "zero_grad")
            return VConst(None)
        return call_opaque(it, VExt("torch.nn.Module." + m), [objv] + list(args), kwargs, node)
    if name.startswith("object.") or name.startswith("MutableSequence.__init__"):
        return VConst(None)
    if name.startswith("MutableSequence."):
        m = name.split(".", 1)[1]
        # mixin methods are defined in terms of insert / __getitem__ / __len__
        if m == "append" and inst.cls is not None:
            ln = it.call_method(objv, "__len__", [], {}, node)
            return it.call_method(objv, "insert", [ln, args[0]], {}, node)
        if m == "extend" and inst.cls is not None:
            items = it.concrete_items(args[0])
            if items is not None:
                for x in items:
                    ln = it.call_method(objv, "__len__", [], {}, node)
                    it.call_method(objv, "insert", [ln, x], {}, node)
                return VConst(None)
        it.effect("container", inst, node, name)
        return VUnknown(name, "unknown")
    ext = inst.ext
    if ext == "torch.distributions.Bernoulli":
        if name == "sample":
            shp = args[0] if args else kwargs.get("sample_shape")
            shape = shape_from_args([shp]) if shp is not None else ()
            if isinstance(shp, VTuple):
                from .ops import dim_of

                shape = tuple(dim_of(x) for x in shp.items)
            p = inst.attrs.get("probs")
            pt = num_term(p) if p is not None else None
            r = it.fresh(T.app("bern", pt if pt is not None else T.sym("?"), T.sym("rng@%s" % it.site(node))), shape, "tensor", node)
            r.obj.valkind = "bern"
            it.ext_calls.append(["torch.distributions.Bernoulli.sample", list(args), dict(kwargs), it.site(node), r])
            return r
    if ext and ext.startswith("torch.distributions."):
        it.ext_calls.append([ext + "." + name, list(args), dict(kwargs), it.site(node), None])
        return opaque_tensor(it, ext + "." + name, [], {}, node)
    if ext == "pathlib.Path":
        if name == "mkdir":
            it.effect("ext", "io:mkdir", node, "Path.mkdir")
            return VConst(None)
        return objv
    if ext == "file":
        if name in ("__enter__",):
            return objv
        if name in ("__exit__", "close"):
            return VConst(None)
        it.effect("ext", "io:file", node, "file.%s" % name)
        return VUnknown("file.%s" % name, "unknown")
    if ext == "csv.DictWriter":
        it.effect("ext", "io:csv", node, "DictWriter.%s" % name)
        inst.attrs.setdefault("__calls__", []).append((name, args, kwargs))
        return VConst(None)
    if ext == "torch.device":
        return VUnknown("device.%s" % name, "unknown")
    if ext == "torch.optim.Optimizer":
        ps = it.concrete_items(inst.attrs.get("params")) if inst.attrs.get("params") is not None else None
        it.ext_calls.append(["optimizer." + name, list(args), dict(kwargs), it.site(node), None])
        it.note_node("optimizer." + name, node)
        if name == "step":
            if ps is None:
                it.effect("params", "attr:<all parameters>", node, "optimizer.step")
            else:
                for q in ps:
                    if isinstance(q, VTens):
                        it.effect("params", q.obj, node, "optimizer.step")
                        q.obj.version += 1
                        q.obj.term = T.app("sgd_step", q.obj.term, q.obj.grad.term if isinstance(q.obj.grad, VTens) and q.obj.grad.term is not None else T.sym("grad?")) if q.obj.term is not None else None
            return VConst(None)
        if name == "zero_grad":
            for q in ps or []:
                if isinstance(q, VTens):
                    it.effect("grad", q.obj, node, "optimizer.zero_grad")
                    q.obj.grad = None
            return VConst(None)
        return VUnknown("optimizer.%s" % name, "unknown")
    if ext == "torch.optim.lr_scheduler":
        it.ext_calls.append(["scheduler." + name, list(args), dict(kwargs), it.site(node), None])
        it.note_node("scheduler." + name, node)
        it.effect("ext", "lr", node, "scheduler.%s" % name)
        if name == "step":
            le = inst.attrs.get("last_epoch")
            inst.attrs["last_epoch"] = VConst(le.value + 1) if isinstance(le, VConst) and isinstance(le.value, int) else VUnknown("scheduler.last_epoch", "int")
        return VConst(None)
    if inst.cls is None:
        return call_opaque(it, VUnknown("%s.%s" % (ext, name), "unknown", inst.origin), [objv] + list(args), kwargs, node)
    # repo instance, method coming from an unknown external base
    return call_opaque(it, VExt(name), [objv] + list(args), kwargs, node)
