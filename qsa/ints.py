"""Small integer / linear-form reasoning: lower bounds of linear forms over bounded symbols, refined by
the comparison outcomes recorded on a path."""
from fractions import Fraction

from . import terms as T
from .values import VNum, VConst, num_term


def lower_bound(term, lows):
    """Lower bound of a linear form  sum c_i * x_i + c0  given lower bounds `lows[name]` of the symbols
    (all c_i must be >= 0); None if not applicable."""
    if term is None:
        return None
    lb = Fraction(0)
    for mono, c in term.terms.items():
        if not mono:
            lb += c
            continue
        if len(mono) != 1 or mono[0][1] != 1 or not isinstance(mono[0][0], T.Sym):
            return None
        nm = mono[0][0].name
        if nm not in lows or c < 0:
            return None
        lb += c * lows[nm]
    return lb


def cmp_facts(conds):
    """Facts (expr_term, op, const) that hold on the path, from recorded decisions on comparisons of a
    linear form with a constant."""
    facts = []
    for c in conds:
        if len(c) < 4 or c[3] is None:
            continue
        v, out = c[3], c[2]
        t = getattr(v, "term", None)
        if t is None:
            continue
        at = t.single_atom()
        if at is None or not isinstance(at, T.App) or not at.op.startswith("cmp_"):
            continue
        op = at.op[4:]
        a, b = at.args
        # normalise to  (a - b) op 0
        d = a - b
        if not out:
            op = {"Gt": "LtE", "GtE": "Lt", "Lt": "GtE", "LtE": "Gt", "Eq": "NotEq", "NotEq": "Eq"}[op]
        facts.append((d, op))
    return facts


def positive_on_path(term, lows, conds, integer=True):
    """True if term > 0 is implied by symbol lower bounds or by a recorded comparison; False if it can
    be zero/negative given the lower bounds alone (and nothing on the path excludes that); None unknown."""
    lows = dict(lows)
    facts = cmp_facts(conds)
    # facts of the form  x + c > 0 / >= 0  on a single symbol raise that symbol's lower bound
    for d, op in facts:
        if len(d.terms) <= 2 and op in ("Gt", "GtE"):
            c0 = d.terms.get((), Fraction(0))
            rest = [(m, c) for m, c in d.terms.items() if m]
            if len(rest) == 1 and len(rest[0][0]) == 1 and rest[0][0][0][1] == 1 and isinstance(rest[0][0][0][0], T.Sym) and rest[0][1] == 1:
                nm = rest[0][0][0][0].name
                bound = -c0 + ((1 if integer else 0) if op == "Gt" else 0)
                lows[nm] = max(lows.get(nm, bound), bound)
    lb = lower_bound(term, lows)
    if lb is not None and lb > 0:
        return True
    for d, op in facts:
        delta = (term - d).const_value()  # term = d + delta
        if delta is None:
            continue
        # d op 0  =>  term = d + delta
        if op == "Gt":  # d > 0 -> d >= 1 for integers
            low = (1 if integer else 0) + delta
            if low > 0 or (not integer and delta >= 0):
                return True
        elif op == "GtE":
            if delta > 0:
                return True
        elif op == "NotEq" and delta == 0 and lb is not None and lb >= 0:
            return True
    if lb is not None and lb <= 0:
        return False
    return None


# ------------------------------------------------------------------ exact evaluation of integer count expressions
_COUNT_OPS = ("ceil", "floor", "trunc", "floordiv", "max", "min", "int", "mod")


def eval_count(term, env):
    """Value (a Fraction) of a count expression - sums / products / quotients of integer symbols and ceil, floor, trunc, //, %,
    max, min of such - under env {symbol: int}; None when the term leaves this vocabulary."""
    import math

    if isinstance(term, (int, Fraction)):
        return Fraction(term)
    if not isinstance(term, T.Poly):
        return None
    total = Fraction(0)
    for mono, c in term.terms.items():
        v = Fraction(c)
        for a, pw in mono:
            if isinstance(a, T.Sym):
                if a.name not in env:
                    return None
                x = Fraction(env[a.name])
            elif isinstance(a, T.App) and a.op == "group":
                x = eval_count(a.args[0], env)
            elif isinstance(a, T.App) and a.op in _COUNT_OPS:
                xs = [eval_count(z, env) for z in a.args if isinstance(z, (T.Poly, int, Fraction))]
                if any(z is None for z in xs) or not xs:
                    return None
                if a.op == "ceil":
                    x = Fraction(math.ceil(xs[0]))
                elif a.op == "floor":
                    x = Fraction(math.floor(xs[0]))
                elif a.op in ("trunc", "int"):
                    x = Fraction(int(xs[0]))
                elif a.op == "floordiv":
                    if len(xs) != 2 or xs[1] == 0:
                        return None
                    x = Fraction(math.floor(xs[0] / xs[1]))
                elif a.op == "mod":
                    if len(xs) != 2 or xs[1] == 0:
                        return None
                    x = xs[0] - xs[1] * math.floor(xs[0] / xs[1])
                elif a.op == "max":
                    x = max(xs)
                else:
                    x = min(xs)
            else:
                return None
            if x is None or (x == 0 and pw < 0):
                return None
            v *= x ** pw
        total += v
    return total


def count_compare(got, want, syms, lo=1, hi=13):
    """Compare two count expressions on the grid lo..hi of every symbol: ('equal', None) | ('differs', {env, got, want}) | None
    (not evaluable).  Both sides are quasi-polynomials with small periods in this vocabulary; a difference has a small witness."""
    import itertools

    syms = sorted(syms)
    if len(syms) > 3:
        return None
    seen = False
    for vals in itertools.product(range(lo, hi + 1), repeat=len(syms)):
        env = dict(zip(syms, vals))
        g, w = eval_count(got, env), eval_count(want, env)
        if g is None or w is None:
            return None
        seen = True
        if g != w:
            return ("differs", {"env": env, "got": g, "want": w})
    return ("equal", None) if seen else None
