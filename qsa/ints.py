"""Small integer / linear-form reasoning: lower bounds of linear forms over bounded symbols, refined by
the comparison outcomes recorded on a path."""
from fractions import Fraction

from . import terms as T
from .values import VNum, VConst, num_term


def lower_bound(term, lows):
    """Lower bound of a linear form  sum c_i * x_i + c0  given lower bounds `lows[name]` of the symbols
    (all c_i must be >= 0); None if not applicable."""
    if term is None:
        return None
    lb = Fraction(0)
    for mono, c in term.terms.items():
        if not mono:
            lb += c
            continue
        if len(mono) != 1 or mono[0][1] != 1 or not isinstance(mono[0][0], T.Sym):
            return None
        nm = mono[0][0].name
        if nm not in lows or c < 0:
            return None
        lb += c * lows[nm]
    return lb


def cmp_facts(conds):
    """Facts (expr_term, op, const) that hold on the path, from recorded decisions on comparisons of a
    linear form with a constant."""
    facts = []
    for c in conds:
        if len(c) < 4 or c[3] is None:
            continue
        v, out = c[3], c[2]
        t = getattr(v, "term", None)
        if t is None:
            continue
        at = t.single_atom()
        if at is None or not isinstance(at, T.App) or not at.op.startswith("cmp_"):
            continue
        op = at.op[4:]
        a, b = at.args
        # normalise to  (a - b) op 0
        d = a - b
        if not out:
            op = {"Gt": "LtE", "GtE": "Lt", "Lt": "GtE", "LtE": "Gt", "Eq": "NotEq", "NotEq": "Eq"}[op]
        if op in ("Lt", "LtE"):
            d, op = -d, {"Lt": "Gt", "LtE": "GtE"}[op]  # d < 0 is -d > 0
        facts.append((d, op))
    return facts


def positive_on_path(term, lows, conds, integer=True):
    """True if term > 0 is implied by symbol lower bounds or by a recorded comparison; False if it can
    be zero/negative given the lower bounds alone (and nothing on the path excludes that); None unknown."""
    lows = dict(lows)
    facts = cmp_facts(conds)
    # facts of the form  x + c > 0 / >= 0  on a single symbol raise that symbol's lower bound
    for d, op in facts:
        if len(d.terms) <= 2 and op in ("Gt", "GtE"):
            c0 = d.terms.get((), Fraction(0))
            rest = [(m, c) for m, c in d.terms.items() if m]
            if len(rest) == 1 and len(rest[0][0]) == 1 and rest[0][0][0][1] == 1 and isinstance(rest[0][0][0][0], T.Sym) and rest[0][1] == 1:
                nm = rest[0][0][0][0].name
                bound = -c0 + ((1 if integer else 0) if op == "Gt" else 0)
                lows[nm] = max(lows.get(nm, bound), bound)
    lb = lower_bound(term, lows)
    if lb is not None and lb > 0:
        return True
    for d, op in facts:
        delta = (term - d).const_value()  # term = d + delta
        if delta is None:
            continue
        # d op 0  =>  term = d + delta
        if op == "Gt":  # d > 0 -> d >= 1 for integers
            low = (1 if integer else 0) + delta
            if low > 0 or (not integer and delta >= 0):
                return True
        elif op == "GtE":
            if delta > 0:
                return True
        elif op == "NotEq" and delta == 0 and lb is not None and lb >= 0:
            return True
    if lb is not None and lb <= 0:
        return False
    return None


# ------------------------------------------------------------------ exact evaluation of integer count expressions
_COUNT_OPS = ("ceil", "floor", "trunc", "floordiv", "max", "min", "int", "mod")


def eval_count(term, env):
    """Value (a Fraction) of a count expression - sums / products / quotients of integer symbols and ceil, floor, trunc, //, %,
    max, min of such - under env {symbol: int}; None when the term leaves this vocabulary."""
    import math

    if isinstance(term, (int, Fraction)):
        return Fraction(term)
    if not isinstance(term, T.Poly):
        return None
    total = Fraction(0)
    for mono, c in term.terms.items():
        v = Fraction(c)
        for a, pw in mono:
            if isinstance(a, T.Sym):
                if a.name not in env:
                    return None
                x = Fraction(env[a.name])
            elif isinstance(a, T.App) and a.op == "group":
                x = eval_count(a.args[0], env)
            elif isinstance(a, T.App) and a.op in _COUNT_OPS:
                xs = [eval_count(z, env) for z in a.args if isinstance(z, (T.Poly, int, Fraction))]
                if any(z is None for z in xs) or not xs:
                    return None
                if a.op == "ceil":
                    x = Fraction(math.ceil(xs[0]))
                elif a.op == "floor":
                    x = Fraction(math.floor(xs[0]))
                elif a.op in ("trunc", "int"):
                    x = Fraction(int(xs[0]))
                elif a.op == "floordiv":
                    if len(xs) != 2 or xs[1] == 0:
                        return None
                    x = Fraction(math.floor(xs[0] / xs[1]))
                elif a.op == "mod":
                    if len(xs) != 2 or xs[1] == 0:
                        return None
                    x = xs[0] - xs[1] * math.floor(xs[0] / xs[1])
                elif a.op == "max":
                    x = max(xs)
                else:
                    x = min(xs)
            else:
                return None
            if x is None or (x == 0 and pw < 0):
                return None
            v *= x ** pw
        total += v
    return total


def count_compare(got, want, syms, lo=1, hi=13):
    """Compare two count expressions on the grid lo..hi of every symbol: ('equal', None) | ('differs', {env, got, want}) | None
    (not evaluable).  Both sides are quasi-polynomials with small periods in this vocabulary; a difference has a small witness."""
    import itertools

    syms = sorted(syms)
    if len(syms) > 3:
        return None
    seen = False
    for vals in itertools.product(range(lo, hi + 1), repeat=len(syms)):
        env = dict(zip(syms, vals))
        g, w = eval_count(got, env), eval_count(want, env)
        if g is None or w is None:
            return None
        seen = True
        if g != w:
            return ("differs", {"env": env, "got": g, "want": w})
    return ("equal", None) if seen else None


# ------------------------------------------------------------------------------ small integer arrays (bit tables)
class _Arr:
    """A tiny integer array (nested lists) with numpy's broadcasting for the few operations bit tables are built from."""

    def __init__(self, data):
        self.data = data

    @property
    def shape(self):
        sh, d = [], self.data
        while isinstance(d, list):
            sh.append(len(d))
            d = d[0] if d else None
        return tuple(sh)


def _bc(f, a, b):
    da, db = (a.data if isinstance(a, _Arr) else a), (b.data if isinstance(b, _Arr) else b)

    def rec(x, y):
        lx, ly = isinstance(x, list), isinstance(y, list)
        if not lx and not ly:
            return f(x, y)
        if lx and ly:
            # align trailing axes
            dx, dy = _depth(x), _depth(y)
            if dx > dy:
                return [rec(e, y) for e in x]
            if dy > dx:
                return [rec(x, e) for e in y]
            if len(x) == len(y):
                return [rec(e, g) for e, g in zip(x, y)]
            if len(x) == 1:
                return [rec(x[0], g) for g in y]
            if len(y) == 1:
                return [rec(e, y[0]) for e in x]
            raise ValueError("broadcast")
        if lx:
            return [rec(e, y) for e in x]
        return [rec(x, e) for e in y]

    return _Arr(rec(da, db)) if isinstance(da, list) or isinstance(db, list) else f(da, db)


def _depth(x):
    d = 0
    while isinstance(x, list):
        d += 1
        x = x[0] if x else None
    return d


def eval_array(term, env):
    """Value of a term built from integer symbols, arange, pow, shifts, bitand, comparisons and basic indexing (slices, ints,
    newaxis, ellipsis) under env {symbol: int}: an int, a bool or an _Arr; None when the term leaves this vocabulary.  Exact."""
    try:
        return _ev_arr(term, env)
    except Exception:
        return None


def _ev_arr(t, env):
    if isinstance(t, (int, Fraction)):
        return int(t) if Fraction(t).denominator == 1 else None
    if not isinstance(t, T.Poly):
        return None
    c = t.const_value()
    if c is not None:
        return int(c) if c.denominator == 1 else None
    a = t.single_atom()
    if a is None:
        v = eval_count(t, env)
        return int(v) if v is not None and v.denominator == 1 else None
    if isinstance(a, T.Sym):
        return env.get(a.name)
    if not isinstance(a, T.App):
        return None
    ar = [(_ev_arr(x, env) if isinstance(x, (T.Poly, int, Fraction)) else x) for x in a.args]
    if a.op == "arange":
        if any(not isinstance(x, int) for x in ar):
            return None
        return _Arr(list(range(*ar)))
    if a.op == "pow" and all(isinstance(x, int) for x in ar):
        return ar[0] ** ar[1]
    if a.op == "repeat_interleave" and isinstance(ar[0], _Arr) and isinstance(ar[1], int) and _depth(ar[0].data) == 1:
        return _Arr([x for x in ar[0].data for _ in range(ar[1])])
    if a.op == "repeat" and isinstance(ar[0], _Arr) and _depth(ar[0].data) == 1 and isinstance(a.args[1], tuple) and len(a.args[1]) == 1:
        n_ = env.get(a.args[1][0]) if not str(a.args[1][0]).lstrip("-").isdigit() else int(a.args[1][0])
        if not isinstance(n_, int):
            return None
        return _Arr(list(ar[0].data) * n_)  # tiled: x0 x1 .. x0 x1 ..
    f2 = {"lshift": lambda x, y: x << y, "rshift": lambda x, y: x >> y, "bitand": lambda x, y: x & y, "bitor": lambda x, y: x | y,
          "cmp_Gt": lambda x, y: x > y, "cmp_Lt": lambda x, y: x < y, "cmp_GtE": lambda x, y: x >= y, "cmp_LtE": lambda x, y: x <= y,
          "cmp_Eq": lambda x, y: x == y, "cmp_NotEq": lambda x, y: x != y, "mod": lambda x, y: x % y, "floordiv": lambda x, y: x // y}
    if a.op in f2 and len(ar) == 2 and all(isinstance(x, (int, bool, _Arr)) for x in ar):
        return _bc(f2[a.op], ar[0], ar[1])
    if a.op == "index" and isinstance(ar[0], _Arr):
        spec = a.args[1]
        data = ar[0].data
        rank = _depth(data)
        items = []
        for s_ in spec:
            if s_ == "ellipsis":
                n_explicit = sum(1 for q in spec if q not in ("ellipsis", "none"))
                items += [slice(None)] * (rank - n_explicit)
            elif s_ == "none":
                items.append(None)
            elif isinstance(s_, tuple) and s_ and s_[0] == "slice":
                vals = [(_ev_arr(q, env) if isinstance(q, (T.Poly, int, Fraction)) else q) for q in s_[1:]]
                if any(v is not None and not isinstance(v, int) for v in vals):
                    return None
                items.append(slice(*vals))
            else:
                v = _ev_arr(s_, env) if isinstance(s_, (T.Poly, int, Fraction)) else None
                if not isinstance(v, int):
                    return None
                items.append(v)

        def take(d, its):
            if not its:
                return d
            h, rest = its[0], its[1:]
            if h is None:
                return [take(d, rest)]
            if isinstance(h, slice):
                return [take(e, rest) for e in d[h]]
            return take(d[h], rest)

        return _Arr(take(data, items))
    return None


def arrays_equal(x, y):
    dx, dy = (x.data if isinstance(x, _Arr) else x), (y.data if isinstance(y, _Arr) else y)
    return dx == dy


def partial_eval(p, env):
    """Replace every maximal sub-term that eval_array can compute under env by a symbol naming its value; the rest of the term
    is rebuilt unchanged.  Two terms that differ only in how they spell an integer table become equal."""
    if isinstance(p, tuple):
        return tuple(partial_eval(x, env) for x in p)
    if not isinstance(p, T.Poly):
        return p
    total = T.ZERO
    for mono, c in p.terms.items():
        m = T.const(c)
        for a, pw in mono:
            m = m * T.powq(_pe_atom(a, env), pw)
        total = total + m
    return total


def _pe_atom(a, env):
    if isinstance(a, T.Sym):
        return T.P(a)
    if isinstance(a, T.App) and a.op in ("index", "arange", "lshift", "rshift", "bitand", "bitor", "cmp_Gt", "cmp_Lt", "cmp_GtE", "cmp_LtE", "cmp_Eq", "cmp_NotEq", "pow", "mod", "floordiv"):
        v = eval_array(T.P(a), env)
        if isinstance(v, _Arr):
            return T.sym("tbl:%r" % (v.data,))
        if isinstance(v, bool):
            return T.sym("tbl:%r" % v)
        if isinstance(v, int):
            return T.const(v)
    if isinstance(a, T.Exp):
        return T.exp(partial_eval(a.arg, env))
    if isinstance(a, T.App):
        return T.rebuild(a.op, [partial_eval(x, env) for x in a.args])
    return T.P(a)


def table_syms(p):
    """Integer symbols that occur inside arange / shift / pow sub-terms (the sizes a bit table is built from)."""
    out = set()
    for a in (p.all_atoms() if isinstance(p, T.Poly) else []):
        if isinstance(a, T.App) and a.op in ("arange", "lshift", "rshift", "pow"):
            for x in a.args:
                if isinstance(x, T.Poly):
                    out |= {s for s in x.syms() if not s.startswith(("lit:", "arr:"))}
    return out


def equal_by_tables(t1, t2, hi=3):
    """True: equal after evaluating their integer tables for every size assignment in 1..hi; False: differ at some assignment
    (returns (False, env)); None: nothing to evaluate / too many symbols."""
    import itertools

    syms = sorted(s for s in (table_syms(t1) | table_syms(t2)))
    if not syms or len(syms) > 4:
        return None
    from .ops import DIM_BOUNDS  # a selection count never exceeds the length of the axis it was selected from

    for vals in itertools.product(range(1, hi + 1), repeat=len(syms)):
        env = dict(zip(syms, vals))
        feasible = True
        for s_, b_ in DIM_BOUNDS.items():
            if s_ in env:
                bv = eval_count(b_, env) if isinstance(b_, T.Poly) else None
                if bv is not None and env[s_] > bv:
                    feasible = False
        if not feasible:
            continue
        try:
            if partial_eval(t1, env) != partial_eval(t2, env):
                return (False, env)
        except Exception:
            return None
    return True
