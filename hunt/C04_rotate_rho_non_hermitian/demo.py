"""C04 - rotate_rho on an explicitly supplied NON-HERMITIAN rho returns (U rho U^dagger)^dagger.

run:  cd /tmp/wth3_H3 && PYTHONPATH=/tmp/wth3_H3 OMP_NUM_THREADS=2 /venv/bin/python /tmp/hunt3/H3/D1/demo.py
"""
import sys, types, itertools
m = types.ModuleType("scipy.linalg"); m.sqrtm = None
sys.modules.setdefault("scipy", types.ModuleType("scipy")); sys.modules.setdefault("scipy.linalg", m)
import numpy as np, torch
from qucumber.nn_states import DensityMatrix
from qucumber.utils import unitaries

s2 = np.sqrt(2)
D = {"X": np.array([[1, 1], [1, -1]]) / s2, "Y": np.array([[1, -1j], [1, 1j]]) / s2, "Z": np.eye(2)}

def dense(basis):
    U = np.ones((1, 1), dtype=complex)
    for b in basis:
        U = np.kron(U, D[b])
    return U

def to_t(a):
    return torch.tensor(np.stack([a.real, a.imag]), dtype=torch.double)

def to_n(t):
    return t[0].numpy() + 1j * t[1].numpy()

torch.manual_seed(0)
rng = np.random.default_rng(0)
worst = None
for n in (1, 2, 3):
    N = 2 ** n
    nn_state = DensityMatrix(n, gpu=False)
    space = nn_state.generate_hilbert_space()
    rho = rng.normal(size=(N, N)) + 1j * rng.normal(size=(N, N))  # non-symmetric complex, as the quantifier allows
    herm = rho @ rho.conj().T
    for basis in map("".join, itertools.product("XYZ", repeat=n)):
        U = dense(basis)
        # Hermitian input: fine
        got_h = to_n(unitaries.rotate_rho(nn_state, basis, space, rho=to_t(herm)))
        assert np.allclose(got_h, U @ herm @ U.conj().T, rtol=1e-10, atol=1e-10), ("hermitian", basis)
        got = to_n(unitaries.rotate_rho(nn_state, basis, space, rho=to_t(rho)))
        want = U @ rho @ U.conj().T
        err = np.max(np.abs(got - want))
        if worst is None or err > worst[0]:
            worst = (err, n, basis, got, want)
print("Hermitian rho: rotate_rho == U rho U^dagger for all 3^n bases, n=1..3  -> ok")
err, n, basis, got, want = worst
print("non-Hermitian rho: worst deviation %.3e at n=%d basis=%s" % (err, n, basis))
print("  obtained equals (U rho U^dagger)^dagger :", np.allclose(got, want.conj().T))

# smallest witness: identity rotation must return rho itself
nn_state = DensityMatrix(1, gpu=False)
rho = np.array([[1.0, 2.0 + 1.0j], [0.0, 3.0]])
got = to_n(unitaries.rotate_rho(nn_state, "Z", nn_state.generate_hilbert_space(), rho=to_t(rho)))
print("basis 'Z' (identity), rho =\n", rho, "\nrotate_rho returned\n", got)
assert np.allclose(got, rho), "rotate_rho(basis='Z') must return rho unchanged: expected\n%s\nobtained\n%s" % (rho, got)
assert err < 1e-9, "rotate_rho(explicit non-Hermitian rho) != U rho U^dagger: expected\n%s\nobtained\n%s" % (want, got)
print("OK")
