"""C11 - autoload from an open file whose model does not start at offset 0.

autoload() reads the stream twice and rewinds it with seek(0) in between, so the second
read (the one that fills in the parameters) does not read what the first one did.

Run:  cd /tmp/wth2_H7 && PYTHONPATH=/tmp/wth2_H7 OMP_NUM_THREADS=2 /venv/bin/python /tmp/hunt2/H7/D2/demo.py
"""
import io
import os
import tempfile
import warnings

import torch

warnings.simplefilter("ignore")
from qucumber.nn_states import (  # noqa: E402
    ComplexWaveFunction,
    DensityMatrix,
    PositiveWaveFunction,
)

torch.manual_seed(0)


def make(cls):
    s = cls(3, 5, 2, gpu=False) if cls is DensityMatrix else cls(3, 5, gpu=False)
    for net in s.networks:
        for p in getattr(s, net).parameters():
            p.data.normal_()
    return s


def same(a, b):
    return all(
        torch.equal(x, y)
        for net in a.networks
        for x, y in zip(getattr(a, net).parameters(), getattr(b, net).parameters())
    )


failures = []
for cls in (PositiveWaveFunction, ComplexWaveFunction, DensityMatrix):
    name = cls.__name__

    # --- scenario A: save / save-again of two models into ONE open file ---------------
    first, second = make(cls), make(cls)
    path = os.path.join(tempfile.mkdtemp(), "two_models.pt")
    with open(path, "wb") as f:
        first.save(f, {"which": "first"})
        offset = f.tell()
        second.save(f, {"which": "second"})

    with open(path, "rb") as f:
        f.seek(offset)
        raw = torch.load(f)  # torch reads the model at the current position
        assert raw["which"] == "second"
        assert torch.equal(raw["rbm_am"]["visible_bias"], second.rbm_am.visible_bias)

        f.seek(offset)
        target = make(cls)
        target.load(f)  # so does NeuralStateBase.load
        assert same(target, second)

        f.seek(offset)
        auto = cls.autoload(f, gpu=False)  # autoload silently returns the OTHER model

    ok = same(auto, second)
    print(f"A {name}: autoload(file at offset {offset}) == second model (expected True): {ok};"
          f" == first model: {same(auto, first)}")
    if not ok:
        failures.append(f"{name}: A wrong model")

    # --- scenario B: the model is preceded by some other bytes in the stream ----------
    buf = io.BytesIO()
    buf.write(b"my container format v1\n")
    offset = buf.tell()
    first.save(buf)
    buf.seek(offset)
    target = make(cls)
    target.load(buf)  # works
    assert same(target, first)
    buf.seek(offset)
    try:
        auto = cls.autoload(buf, gpu=False)
        ok = same(auto, first)
        print(f"B {name}: autoload(stream at offset {offset}) == saved model: {ok}")
        if not ok:
            failures.append(f"{name}: B wrong model")
    except Exception as e:  # noqa: BLE001
        print(f"B {name}: load() at offset {offset} works, autoload() raises "
              f"{type(e).__name__}: {str(e).splitlines()[0][:60]}...")
        failures.append(f"{name}: B {type(e).__name__}")

assert not failures, (
    "C11: autoload(open file) must reproduce the model stored at the file's current "
    "position bit-identically (as load() and torch.load() do); obtained: " + "; ".join(failures)
)
print("OK")
