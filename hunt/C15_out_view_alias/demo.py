"""C15: scalar_mult(x, y, out=...) must reject an output buffer that aliases an
operand.  The check is `out is x or out is y` (object identity), so a view of x
or y (x[:], x.view(...), x[...]) is accepted and the product is silently wrong."""
import numpy as np, torch
from qucumber.utils import cplx

a = np.array([1 + 2j, 3 - 1j]); b = np.array([2 - 1j, 1 + 1j])
exp = a * b
x, y = cplx.make_complex(a), cplx.make_complex(b)
try:
    cplx.scalar_mult(x, y, out=x)
    raise SystemExit("out is x was not rejected?!")
except RuntimeError as e:
    print("out=x      -> RuntimeError:", e, "(correct)")

bad = []
for label, mk in [("x[:]", lambda x, y: x[:]), ("x.view(2, 2)", lambda x, y: x.view(2, 2)),
                  ("x[...]", lambda x, y: x[...]), ("y[:]", lambda x, y: y[:])]:
    x, y = cplx.make_complex(a), cplx.make_complex(b)
    out = mk(x, y)
    try:
        r = cplx.numpy(cplx.scalar_mult(x, y, out=out))
    except RuntimeError as e:
        print(f"out={label:12s} -> RuntimeError (correct)"); continue
    print(f"out={label:12s} -> no error, returned {r}, expected {exp}")
    if not np.allclose(r, exp): bad.append((label, r.tolist()))
assert not bad, f"aliasing out buffers accepted and wrong product returned (expected {exp.tolist()}): {bad}"
