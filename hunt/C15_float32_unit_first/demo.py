"""D2 (C15): products / quotients whose FIRST operand is the library's float32 constant
cplx.I silently cast the float64 operand down to float32.

i * y is exact in complex arithmetic (it only swaps and negates components), and
cplx.scalar_mult(y, cplx.I) is indeed exact.  cplx.scalar_mult(cplx.I, y) (and elementwise_mult,
scalar_divide, inner_prod, matmul, which all start with `y = y.to(x)`) converts the float64
operand to the dtype of the first one, so the result is float32 with a relative error ~3e-8,
even when a float64 out= buffer is supplied.
"""
import numpy as np
import torch
from qucumber.utils import cplx

rng = np.random.default_rng(0)
yv = rng.normal(size=4) + 1j * rng.normal(size=4)
y = cplx.make_complex(yv)                     # float64 real pair
assert y.dtype == torch.float64 and cplx.I.dtype == torch.float32
expected = 1j * yv

def relerr(t):
    return float(np.max(np.abs(cplx.numpy(t.double()) - expected) / np.abs(expected)))

a = cplx.scalar_mult(y, cplx.I)
b = cplx.scalar_mult(cplx.I, y)
out = torch.zeros(2, 4, dtype=torch.float64)
c = cplx.scalar_mult(cplx.I, y, out=out)
d = cplx.elementwise_mult(cplx.I, y)
e = cplx.inner_prod(cplx.I, y[:, 0])          # <i|y0> = -i*y0
e_err = abs(complex(*e.double().tolist()) - (-1j * yv[0])) / abs(yv[0])
print("scalar_mult(y, I)          dtype", a.dtype, " max rel err", relerr(a))
print("scalar_mult(I, y)          dtype", b.dtype, " max rel err", relerr(b))
print("scalar_mult(I, y, out=f64) dtype", c.dtype, " max rel err", relerr(c))
print("elementwise_mult(I, y)     dtype", d.dtype, " max rel err", relerr(d))
print("inner_prod(I, y0)          dtype", e.dtype, " rel err", e_err)
print("expected i*y :", expected)
print("obtained     :", cplx.numpy(b.double()))

assert relerr(a) == 0.0
assert b.dtype == torch.float64 and relerr(b) < 1e-9, (
    "scalar_mult(I, y) for float64 y: expected float64 result equal to i*y (rel err 0), "
    "obtained dtype %s with max rel err %.3g" % (b.dtype, relerr(b))
)
assert relerr(c) < 1e-9
