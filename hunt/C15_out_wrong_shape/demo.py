"""C15 - scalar_mult(x, y, out=buf) with a buffer whose shape is not the shape of the product
does not raise: it returns `buf` in its old shape, partly overwritten, partly stale.

Realistic sequence: one work buffer allocated for the first batch and reused for a later,
shorter batch (angle 1: buffers reused between calls).
"""
import sys
import warnings
import numpy as np
import torch

from qucumber.utils import cplx

warnings.simplefilter("ignore")  # torch emits a UserWarning ("resized ... deprecated"), not an error


def enc(z):
    z = np.asarray(z, dtype=complex)
    return torch.stack([torch.tensor(z.real.copy(), dtype=torch.double),
                        torch.tensor(z.imag.copy(), dtype=torch.double)])


failures = []


def run(name, x, y, buf):
    exp = x * y
    try:
        r = cplx.scalar_mult(enc(x), enc(y), out=buf)
    except Exception as e:  # an error is what the property asks for
        print(f"ok   {name}: rejected with {type(e).__name__}")
        return
    got = cplx.numpy(r)
    ok = got.shape == exp.shape and np.allclose(got, exp, rtol=1e-9)
    print(f"{'ok  ' if ok else 'FAIL'} {name}: no error;\n       expected {exp}\n       obtained {got}  (shape {got.shape})")
    if not ok:
        failures.append(name)


# 1. the sequence: buffer made for a batch of 4, reused for the last batch of 3
a1, b1 = np.array([1 + 1j, 2 - 1j, 0.5j, 3.0]), np.array([2.0, 1j, 1 - 1j, -1 + 2j])
a2, b2 = np.array([1 + 2j, 3 - 1j, -2 + 0.5j]), np.array([0.5 - 1j, 2 + 2j, 1j])
buf = torch.zeros(2, 4, dtype=torch.double)
run("first batch, buffer (2,4), product (4,)", a1, b1, buf)
run("second batch, same buffer (2,4), product (3,)", a2, b2, buf)

# 2. other shapes that are not the shape of the product
run("buffer (2,2,3) for a product of shape (3,)", a2, b2, torch.full((2, 2, 3), 7.0, dtype=torch.double))
run("buffer (2,2) for a product of shape (3,)", a2, b2, torch.full((2, 2), 7.0, dtype=torch.double))
run("buffer (2,) (a scalar) for a product of shape (3,)", a2, b2, torch.full((2,), 7.0, dtype=torch.double))
M = np.arange(6).reshape(2, 3) * (1 + 1j)
run("buffer (2,6) for matrix * scalar of shape (2,3)", M, np.asarray(2 - 1j), torch.full((2, 6), 7.0, dtype=torch.double))
run("buffer (2,3,2) for matrix * scalar of shape (2,3)", M, np.asarray(2 - 1j), torch.full((2, 3, 2), 7.0, dtype=torch.double))

if failures:
    print(f"\n{len(failures)} calls returned a wrong value instead of raising")
    sys.exit(1)
print("all good")
