"""C19: load_data / load_data_DM must return samples and bases exactly as written in the files
(N rows x n columns).  With one sample (N = 1) or one site (n = 1) np.loadtxt squeezes the array,
so the row/column axis is lost: an N=1,n=3 file and an N=3,n=1 file load identically, and
extract_refbasis_samples / fit cannot consume the result.  The same happens to the unique-bases
file when it contains a single basis."""
import os, tempfile
import numpy as np, torch
from qucumber.utils import data as qd

tmp = tempfile.mkdtemp()
def w(name, lines):
    p = os.path.join(tmp, name)
    with open(p, "w") as f:
        f.write("\n".join(lines) + "\n")
    return p

errors = []
def check(tag, got_shape, exp_shape):
    ok = tuple(got_shape) == tuple(exp_shape)
    print(f"{tag:55s} expected shape {tuple(exp_shape)}  obtained {tuple(got_shape)}  {'ok' if ok else 'WRONG'}")
    if not ok:
        errors.append(tag)

cases = {
    "N=1,n=3": (["0 1 1"], ["Z Z Z"], 3),
    "N=3,n=1": (["0", "1", "1"], ["Z", "X", "Z"], 1),
    "N=1,n=1": (["1"], ["Z"], 1),
    "N=3,n=2 (control)": (["0 1", "1 1", "0 0"], ["Z Z", "X Y", "Z Z"], 2),
}
for tag, (s_lines, b_lines, n) in cases.items():
    N = len(s_lines)
    D = 2 ** n
    ps, pb = w("s.txt", s_lines), w("b.txt", b_lines)
    pp = w("psi.txt", ["0.5 0.25"] * D)
    pr = w("re.txt", [" ".join(["0.5"] * D)] * D)
    pi = w("im.txt", [" ".join(["0.0"] * D)] * D)
    samples, psi, bases = qd.load_data(ps, pp, pb)
    check(f"load_data    {tag}: samples", samples.shape, (N, n))
    check(f"load_data    {tag}: bases", bases.shape, (N, n))
    samples_dm, rho, bases_dm = qd.load_data_DM(ps, pr, pi, pb)
    check(f"load_data_DM {tag}: samples", samples_dm.shape, (N, n))
    check(f"load_data_DM {tag}: bases", bases_dm.shape, (N, n))
    try:
        z = qd.extract_refbasis_samples(samples, bases)
        exp = sum(all(c == "Z" for c in l.split()) for l in b_lines)
        check(f"extract_refbasis_samples {tag}", z.shape, (exp, n))
    except Exception as e:  # noqa
        print(f"extract_refbasis_samples {tag}: raised {type(e).__name__}: {e}")
        errors.append("extract " + tag)

a = qd.load_data(w("s.txt", ["0 1 1"]))[0]
b = qd.load_data(w("s.txt", ["0", "1", "1"]))[0]
print("N=1,n=3 file and N=3,n=1 file give identical tensors:", torch.equal(a, b), tuple(a.shape))

u = qd.load_data(w("s.txt", ["0 1", "1 1"]), bases_path=w("ub.txt", ["Z Z"]))[1]
check("load_data unique-bases file with ONE basis 'Z Z'", u.shape, (1, 2))
u = qd.load_data(w("s.txt", ["0 1", "1 1"]), bases_path=w("ub.txt", ["Z Z", "X Y"]))[1]
check("load_data unique-bases file with two bases (control)", u.shape, (2, 2))

assert not errors, f"data loaders lost an axis / downstream extraction failed for: {errors}"
print("OK")
