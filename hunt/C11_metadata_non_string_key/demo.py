"""D2 (C11): NeuralStateBase.save refuses a metadata dict whose top-level keys are not strings
(TypeError: keywords must be strings), although such keys cannot collide with a reserved name, the
same dict is accepted one level down (nested) and by ModelSaver(metadata_only=True), and torch can
save / load it.  With ModelSaver(metadata={...}) the exception aborts fit() at on_train_start.

Run:  cd /tmp/wth3_H7 && PYTHONPATH=/tmp/wth3_H7 OMP_NUM_THREADS=2 /venv/bin/python /tmp/hunt3/H7/D2/demo.py
"""
import os
import tempfile
import warnings

import numpy as np
import torch

from qucumber.callbacks import ModelSaver
from qucumber.nn_states import ComplexWaveFunction, DensityMatrix, PositiveWaveFunction

warnings.simplefilter("ignore")
d = tempfile.mkdtemp()
meta = {10: 0.51, 20: 0.32, 30: 0.30}  # e.g. epoch -> loss

# the installed torch saves and loads such a dict, also next to state_dicts
p0 = os.path.join(d, "plain.pt")
torch.save({"rbm_am": {}, **{"nested": meta}, **meta}, p0)
assert torch.load(p0)[10] == 0.51
print("torch.save / torch.load of a dict with int keys: fine")

failures = []
for cls, args in (
    (PositiveWaveFunction, (3, 4, False)),
    (ComplexWaveFunction, (3, 4)),
    (DensityMatrix, (3, 4, 2)),
):
    state = cls(*args)
    p = os.path.join(d, cls.__name__ + ".pt")

    state.save(p, {"nested": meta})  # accepted one level down
    assert torch.load(p)["nested"] == meta

    try:
        state.save(p, meta)
        stored = torch.load(p)
        assert all(stored[k] == v for k, v in meta.items())
        loaded = cls.autoload(p, gpu=False)
        print(cls.__name__, "save(metadata={10: ..}) ok")
    except TypeError as e:
        print(cls.__name__, "save(metadata={10: ..}) raised TypeError:", e)
        failures.append((cls.__name__, repr(e)))

# same through the periodic saver: metadata_only=True accepts the dict, metadata_only=False kills fit()
data = torch.tensor(np.random.RandomState(0).binomial(1, 0.5, size=(20, 3)), dtype=torch.double)
state = PositiveWaveFunction(3, 4, gpu=False)
state.fit(data, epochs=1, pos_batch_size=10,
          callbacks=[ModelSaver(1, d, "only_{}.pt", metadata=meta, metadata_only=True)])
assert torch.load(os.path.join(d, "only_1.pt")) == meta
print("ModelSaver(metadata_only=True) with the same dict: fine")
try:
    state.fit(data, epochs=1, pos_batch_size=10,
              callbacks=[ModelSaver(1, d, "full_{}.pt", metadata=meta, metadata_only=False)])
    print("ModelSaver(metadata_only=False): fine")
except TypeError as e:
    print("ModelSaver(metadata_only=False): fit aborted with TypeError:", e)
    failures.append(("ModelSaver", repr(e)))

assert not failures, (
    "expected: metadata stored alongside the parameters (file[10] == 0.51); obtained: " + str(failures)
)
print("OK")
