"""D3 (C15): cplx.sigmoid returns nan for finite arguments with real part >~ 709.8.

sigmoid(z) = 1/(1+exp(-z)) is finite (and ~1) for every finite z with large positive real part;
the library evaluates exp(z)/(1+exp(z)), which is inf/inf = nan once exp(z) overflows.
"""
import cmath, warnings
import numpy as np
import torch
from qucumber.utils import cplx

bad = []
for re, im in [(5.0, 1.0), (700.0, 1.0), (709.0, 0.3), (710.0, 0.0), (800.0, 0.0), (1000.0, 2.0), (-1000.0, 2.0)]:
    x = torch.tensor([re], dtype=torch.double); y = torch.tensor([im], dtype=torch.double)
    with warnings.catch_warnings():
        warnings.simplefilter("ignore")
        got = cplx.numpy(cplx.sigmoid(x, y))[0]
    z = complex(re, im)
    exp = 1 / (1 + cmath.exp(-z)) if re > -700 else 0j     # exact value, finite for every finite z
    print(f"sigmoid({re}+{im}j): expected {exp}, obtained {got}")
    if not np.isfinite(got) or abs(got - exp) > 1e-9 * max(abs(exp), 1e-300):
        bad.append((z, exp, got))

assert not bad, "cplx.sigmoid wrong for finite inputs (z, expected, obtained): %s" % bad
