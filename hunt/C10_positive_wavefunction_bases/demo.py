"""C10: KL and NLL must return a real number for all three state types and any
bases.  For PositiveWaveFunction every call with bases raises AttributeError."""
import sys, types
_m = types.ModuleType("scipy.linalg"); _m.sqrtm = None
sys.modules["scipy"] = types.ModuleType("scipy"); sys.modules["scipy.linalg"] = _m
import numpy as np, torch
from qucumber.nn_states import PositiveWaveFunction
from qucumber.utils import cplx, training_statistics as ts

torch.manual_seed(0)
n = 2
s = PositiveWaveFunction(n, 2, gpu=False)
sp = s.generate_hilbert_space()
psi = cplx.numpy(s.psi(sp)); psi = psi / np.linalg.norm(psi)          # model state
H = np.array([[1, 1], [1, -1]]) / np.sqrt(2)
Y = np.array([[1, -1j], [1, 1j]]) / np.sqrt(2)
U = {"XZ": np.kron(H, np.eye(2)), "YX": np.kron(Y, H), "ZZ": np.eye(4)}
rng = np.random.default_rng(0)
t = rng.normal(size=4) + 1j * rng.normal(size=4); t /= np.linalg.norm(t)  # target

def kl(p, q): return float(np.sum(p * (np.log(p) - np.log(q))))
bases = ["XZ", "YX", "ZZ"]
exp_kl = np.mean([kl(abs(U[b] @ t) ** 2, abs(U[b] @ psi) ** 2) for b in bases])
samples = sp[[0, 3, 1]]
sb = np.array([list(b) for b in bases])
exp_nll = -np.mean([np.log(abs(U[b] @ psi)[i] ** 2) for b, i in zip(bases, [0, 3, 1])])

errors = []
def attempt(name, f, exp):
    try:
        got = f()
    except Exception as e:
        print(f"{name}: expected {exp:.12f}, obtained exception {type(e).__name__}: {e}")
        errors.append(name); return
    print(f"{name}: expected {exp:.12f}, obtained {got!r}")
    if not (isinstance(got, float) and abs(got - exp) < 1e-9): errors.append(name)

attempt("KL(target vector, bases=list)", lambda: ts.KL(s, cplx.make_complex(t), bases=bases), exp_kl)
attempt("KL(target dict)", lambda: ts.KL(s, {b: cplx.make_complex(U[b] @ t) for b in bases}), exp_kl)
attempt("KL(bases=['ZZ'])  (no rotation at all)", lambda: ts.KL(s, cplx.make_complex(t), bases=["ZZ"]),
        kl(abs(t) ** 2, abs(psi) ** 2))
attempt("NLL(sample_bases)", lambda: ts.NLL(s, samples, sample_bases=sb), exp_nll)
assert not errors, f"PositiveWaveFunction metrics with bases failed: {errors}"
