"""D1 - overwrite=True is silently ignored when the start state is not float64.

C05: "the caller's start state is left untouched unless overwriting was requested,
      and then it is updated in place"   (every start state; overwrite True/False)
C13: "user-provided initial chains with overwrite on/off"

Run:  cd /tmp/wth3_H4 && PYTHONPATH=/tmp/wth3_H4 OMP_NUM_THREADS=2 /venv/bin/python /tmp/hunt3/H4/D1/demo.py
"""
import sys, types, warnings
m = types.ModuleType("scipy.linalg"); m.sqrtm = None
sys.modules["scipy"] = types.ModuleType("scipy"); sys.modules["scipy.linalg"] = m
warnings.filterwarnings("ignore")
import torch
from qucumber.nn_states import PositiveWaveFunction, DensityMatrix
from qucumber.observables import SigmaZ, System

failures = []


def make(kind):
    torch.manual_seed(0)
    s = PositiveWaveFunction(3, 2, gpu=False) if kind == "pos" else DensityMatrix(3, 2, 2, gpu=False)
    for p in s.rbm_am.parameters():
        p.data = 0.3 * torch.randn_like(p)
    # a strong visible bias makes one Gibbs step from 000 end in 111 with
    # probability 1 - 1e-12, so "was the buffer updated" is a deterministic question
    s.rbm_am.visible_bias.data[:] = 30.0
    return s


ones = torch.ones(4, 3, dtype=torch.double)
for kind in ["pos", "dm"]:
    s = make(kind)
    for dt in [torch.float64, torch.float32, torch.int64, torch.uint8]:
        calls = {
            "nn_state.sample(1, initial_state=buf, overwrite=True)":
                lambda buf: s.sample(1, initial_state=buf, overwrite=True),
            "rbm.gibbs_steps(1, buf, overwrite=True)":
                lambda buf: s.rbm_am.gibbs_steps(1, buf, overwrite=True),
            "SigmaZ().statistics(s, 8, burn_in=1, steps=1, initial_state=buf, overwrite=True)":
                lambda buf: SigmaZ().statistics(s, 8, burn_in=1, steps=1, initial_state=buf, overwrite=True),
            "System(SigmaZ()).statistics(s, 8, burn_in=1, steps=1, initial_state=buf, overwrite=True)":
                lambda buf: System(SigmaZ()).statistics(s, 8, burn_in=1, steps=1, initial_state=buf, overwrite=True),
        }
        for label, call in calls.items():
            buf = torch.zeros(4, 3, dtype=dt)      # four chains, all starting in 000
            call(buf)
            ok = torch.equal(buf.double(), ones)
            print(f"{'ok  ' if ok else 'FAIL'} {kind:3s} {str(dt):14s} {label}\n"
                  f"       expected caller's buffer == all ones (final chain state); obtained {buf.tolist()}")
            if not ok:
                failures.append((kind, dt, label))

    # control: overwrite=False must leave every dtype untouched (it does)
    for dt in [torch.float64, torch.float32, torch.int64]:
        buf = torch.zeros(4, 3, dtype=dt)
        s.sample(1, initial_state=buf, overwrite=False)
        assert torch.equal(buf, torch.zeros(4, 3, dtype=dt))

assert not failures, (
    f"overwrite=True did not update the caller's start state in {len(failures)} cases "
    f"(all of them non-float64 buffers; the float64 controls pass): {failures[:3]} ..."
)
