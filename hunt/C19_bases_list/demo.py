"""D1 (C19): load_data / load_data_DM lose the row axis of a one-row bases file
(and the site axis of a one-site bases file).

The file of unique bases has the same layout as the file of training bases:
one basis per ROW, one site label per COLUMN (cf. examples/Tutorial2/qubits_bases.txt:
"Z Z\nX Z\nZ X\n...").  The loader must return it "exactly as written", i.e. as a
(K, n) array of labels.  The training bases are loaded with ndmin=2, the unique
bases with ndmin=1, so np.loadtxt squeezes a one-row file "X Z" to shape (2,) --
indistinguishable from a two-row one-site file "X\nZ".
"""
import os, sys, tempfile, types

m = types.ModuleType("scipy.linalg"); m.sqrtm = None
sys.modules["scipy"] = types.ModuleType("scipy"); sys.modules["scipy.linalg"] = m

import numpy as np
import torch
from qucumber.nn_states import ComplexWaveFunction
from qucumber.utils import cplx
from qucumber.utils.data import load_data, load_data_DM
from qucumber.utils.training_statistics import KL

tmp = tempfile.mkdtemp()
def write(name, text):
    p = os.path.join(tmp, name)
    with open(p, "w") as f:
        f.write(text)
    return p

samples = write("train.txt", "0 1\n1 1\n0 0\n")
tr_bases = write("train_bases.txt", "X Z\nZ Z\nX Z\n")
psi = write("psi.txt", "0.5 0.0\n0.5 0.0\n0.5 0.0\n-0.5 0.0\n")
re = write("re.txt", "0.5 0\n0 0.5\n"); im = write("im.txt", "0 0\n0 0\n")

# reference: a two-row file keeps (K, n)
two = write("bases2.txt", "X Z\nZ Z\n")
b2 = load_data(samples, psi, tr_bases, two)[3]
print("two-row bases file  ->", b2.shape, b2.tolist())
assert b2.shape == (2, 2)

one = write("bases1.txt", "X Z\n")           # K = 1 basis, n = 2 sites
train_samples, target, train_bases, bases = load_data(samples, psi, tr_bases, one)
print("one-row bases file  ->", bases.shape, bases.tolist(), "   expected shape (1, 2), [['X', 'Z']]")
bases_dm = load_data_DM(samples, tr_bases_path=tr_bases, bases_path=one)[-1]
print("one-row, load_data_DM->", bases_dm.shape, bases_dm.tolist())

col = write("bases_col.txt", "X\nZ\n")       # K = 2 bases, n = 1 site
bcol = load_data(samples, bases_path=col)[-1]
print("one-site bases file ->", bcol.shape, bcol.tolist(), "   expected shape (2, 1), [['X'], ['Z']]")
print("one-row 2-site file and two-row 1-site file give the same array:",
      np.array_equal(bases, bcol))

# consequence: the documented use  KL(nn_state, target, bases=bases)  breaks
torch.manual_seed(0)
state = ComplexWaveFunction(2, num_hidden=2)
try:
    print("KL with the loaded bases:", KL(state, target, bases=bases))
except Exception as e:
    print("KL(state, target, bases=<loaded bases>) raises:", type(e).__name__, e)
print("KL with the bases as written ([['X','Z']]):", KL(state, target, bases=np.array([["X", "Z"]])))

assert bases.shape == (1, 2), (
    "load_data: bases of a one-row file: expected shape (1, 2) [['X','Z']], obtained shape %s %s"
    % (bases.shape, bases.tolist())
)
assert bases_dm.shape == (1, 2)
assert bcol.shape == (2, 1)
