"""C09 - region argument forms: the EMPTY region given as a torch tensor.

SWAP documents  A : int or list or np.array or torch.Tensor.  The empty region
written as a list ([]), as a numpy array (np.array([])) or as an integer tensor
works and gives <SWAP> = 1 (S2 = 0, as the property promises for the empty
region).  Written the way one naturally writes an empty tensor -
torch.tensor([]) (equivalently torch.tensor(sites) with sites == []) - SWAP.apply
raises IndexError, for every state type.

Second check (same root cause - A is used raw as an index): a region given as
a uint8 tensor / array of site numbers is silently taken as a 0/1 MASK, so on
two sites A = uint8[0, 1] (the full region) is evaluated as region {1}.
"""
import sys, types, warnings, itertools
m = types.ModuleType("scipy.linalg"); m.sqrtm = None
sys.modules["scipy"] = types.ModuleType("scipy"); sys.modules["scipy.linalg"] = m
warnings.simplefilter("ignore")
import numpy as np, torch
from qucumber.nn_states import PositiveWaveFunction, ComplexWaveFunction, DensityMatrix
from qucumber.observables import SWAP


def make(kind, n):
    torch.manual_seed(3)
    s = {"pos": lambda: PositiveWaveFunction(n, gpu=False),
         "cplx": lambda: ComplexWaveFunction(n, gpu=False),
         "dm": lambda: DensityMatrix(n, gpu=False)}[kind]()
    for net in s.networks:
        for p in getattr(s, net).parameters():
            p.data = torch.randn_like(p.data) * 0.7
    return s


def exact_swap_mean(s, obs):
    """sum over all ordered pairs of basis states of p(s1) p(s2) SWAP_A(s1, s2)"""
    n = s.num_visible
    space = s.generate_hilbert_space(n)
    p = s.probability(space)
    p = (p / p.sum()).numpy()
    tot = 0.0
    for i, j in itertools.product(range(2 ** n), repeat=2):
        val = obs.apply(s, torch.stack([space[i], space[j]]))
        tot += p[i] * p[j] * 0.5 * (val[0].item() + val[1].item())
    return tot


failures = []
n = 2
for kind in ["pos", "cplx", "dm"]:
    s = make(kind, n)
    forms = {
        "[]": [],
        "np.array([])": np.array([]),
        "torch.tensor([], dtype=torch.long)": torch.tensor([], dtype=torch.long),
        "torch.tensor([])": torch.tensor([]),           # what torch.tensor(sites) gives for sites == []
    }
    for name, A in forms.items():
        try:
            got = exact_swap_mean(s, SWAP(A))
            status = "ok" if abs(got - 1.0) < 1e-9 else "WRONG"
            print(f"{kind:5s} empty region as {name:36s}: <SWAP> = {got:.12f} (expected 1)  {status}")
            if status != "ok":
                failures.append((kind, name, "expected 1.0", got))
        except Exception as e:
            print(f"{kind:5s} empty region as {name:36s}: raised {type(e).__name__}: {e}")
            failures.append((kind, name, "expected 1.0", f"{type(e).__name__}: {e}"))

# second check: uint8 site numbers are taken as a mask (pure state, full region => <SWAP> must be 1)
s = make("cplx", 2)
ref_full = exact_swap_mean(s, SWAP([0, 1]))
try:
    got = exact_swap_mean(s, SWAP(torch.tensor([0, 1], dtype=torch.uint8)))
except Exception as e:  # newer torch versions may refuse byte indices
    got = f"{type(e).__name__}: {e}"
print(f"cplx  full region [0, 1] as list: {ref_full:.12f}; as uint8 tensor: {got}")
if not (isinstance(got, float) and abs(got - ref_full) < 1e-9):
    failures.append(("cplx", "uint8 tensor [0, 1]", ref_full, got))

print()
for f in failures:
    print("FAIL", f)
assert not failures, f"{len(failures)} region forms disagree with the list form, e.g. {failures[0]}"
print("no defect")
