"""C18 - EarlyStopping(criterion="relative") crashes the training run with
ZeroDivisionError when the evaluation `patience` evaluations earlier is exactly 0
(Python float, which is what every library metric / observable statistic returns).

Run:  cd /tmp/wth_H9 && PYTHONPATH=/tmp/wth_H9 OMP_NUM_THREADS=2 /venv/bin/python /tmp/hunt/H9/D1/demo.py
"""
import sys, types, traceback
m = types.ModuleType("scipy.linalg"); m.sqrtm = None
sys.modules["scipy"] = types.ModuleType("scipy"); sys.modules["scipy.linalg"] = m

import numpy as np
import torch
from qucumber.nn_states import PositiveWaveFunction
from qucumber.callbacks import MetricEvaluator, ObservableEvaluator, EarlyStopping
from qucumber.observables import SigmaZ

data = torch.tensor([[0.0, 1.0], [1.0, 0.0], [1.0, 1.0]], dtype=torch.double)
EPOCHS = 8
problems = []


def reference_stop_epoch(seq, period_eval, period_stop, patience, tol):
    """Documented rule |(M_{t-p} - M_t) / M_{t-p}| < tol, IEEE semantics for a
    zero baseline (x/0 = inf, 0/0 = nan -> neither is below any tolerance)."""
    evals = []
    it = iter(seq)
    for ep in range(1, EPOCHS + 1):
        if ep % period_eval == 0:
            evals.append(next(it))
        if ep % period_stop == 0 and len(evals) > patience:
            old, cur = np.float64(evals[-1 - patience]), np.float64(evals[-1])
            with np.errstate(all="ignore"):
                dev = abs((old - cur) / old)
            if dev < tol:
                return ep
    return None


# ---------------------------------------------------------------- part A
# scripted monitored sequence that CONTAINS A ZERO (quantifier: "containing zeros")
seq = [0.0, 1.0, 1.0, 1.0, 1.0, 1.0, 1.0, 1.0]
expected = reference_stop_epoch(seq, 1, 1, patience=1, tol=0.1)
print("A) metric sequence", seq, "relative criterion, patience 1, tol 0.1")
print("   expected: no stop at epoch 2 (|0-1|/0 is not < 0.1), stop at epoch", expected,
      "(|1-1|/1 = 0 < 0.1)")

for label, conv in [("python float", float), ("numpy float64", np.float64)]:
    it = iter(seq)
    state = PositiveWaveFunction(2, 1, gpu=False)
    ev = MetricEvaluator(1, {"q": lambda s, **kw: conv(next(it))})
    es = EarlyStopping(1, 0.1, 1, ev, "q", criterion="relative")
    try:
        import warnings
        with warnings.catch_warnings():
            warnings.simplefilter("ignore")
            state.fit(data, epochs=EPOCHS, pos_batch_size=3, lr=0.01, callbacks=[ev, es])
        obtained = es.last_epoch
    except Exception as e:  # noqa
        obtained = "%s: %s" % (type(e).__name__, e)
    print("   obtained with %-14s values: %r" % (label, obtained))
    if obtained != expected:
        problems.append("A/%s: expected stop epoch %r, obtained %r" % (label, expected, obtained))

# ---------------------------------------------------------------- part B
# unscripted: a perfectly anti-aligned 2-spin state has <SigmaZ> == 0.0 exactly
print("B) ObservableEvaluator(SigmaZ) on a state whose samples are always (1,0): mean is exactly 0.0")
torch.manual_seed(0)
state = PositiveWaveFunction(2, 1, gpu=False)
with torch.no_grad():
    state.rbm_am.weights.zero_()
    state.rbm_am.hidden_bias.zero_()
    state.rbm_am.visible_bias.copy_(torch.tensor([40.0, -40.0], dtype=torch.double))
ev = ObservableEvaluator(1, [SigmaZ()], num_samples=4, burn_in=2, steps=1)
es = EarlyStopping(1, 0.05, 1, ev, "SigmaZ", criterion="relative")
try:
    state.fit(torch.tensor([[1.0, 0.0]] * 4), epochs=4, pos_batch_size=4, lr=1e-6, callbacks=[ev, es])
    print("   fit returned; means =", list(ev.SigmaZ.mean), "last_epoch =", es.last_epoch)
except Exception as e:  # noqa
    traceback.print_exc()
    print("   means recorded before the crash:", list(ev.SigmaZ.mean))
    problems.append("B: fit raised %s: %s (expected: fit returns, a stop decision is made)" % (type(e).__name__, e))

print()
assert not problems, "EarlyStopping relative criterion with a zero baseline:\n  " + "\n  ".join(problems)
print("no defect observed")
