"""C04 - a user-added single-qubit unitary given to create_dict as a nested list must be stored exactly
(double precision), so that rotations equal the dense Kronecker product to ~1e-15, not ~1e-7.

Run:  cd /tmp/wth2_H3 && PYTHONPATH=/tmp/wth2_H3 OMP_NUM_THREADS=2 /venv/bin/python /tmp/hunt2/H3/D2/demo.py
"""
import math
import warnings
import numpy as np
import torch

warnings.filterwarnings("ignore")
from qucumber.nn_states import ComplexWaveFunction, DensityMatrix
from qucumber.utils import cplx, unitaries

# a generic single-qubit unitary, written down as plain python floats: [real part, imaginary part]
th, a, b = 0.7, 0.3, 0.9
Hc = np.array(
    [
        [math.cos(th), np.exp(1j * a) * math.sin(th)],
        [-np.exp(1j * (b - a)) * math.sin(th), np.exp(1j * b) * math.cos(th)],
    ]
)
assert np.allclose(Hc @ Hc.conj().T, np.eye(2), atol=1e-15)
H_list = [Hc.real.tolist(), Hc.imag.tolist()]  # nested list of python floats
H_numpy = np.stack([Hc.real, Hc.imag])  # the same numbers as a float64 array

d_list = unitaries.create_dict(H=H_list)
d_numpy = unitaries.create_dict(H=H_numpy)

err_numpy = np.abs(cplx.numpy(d_numpy["H"]) - Hc).max()
err_list = np.abs(cplx.numpy(d_list["H"]) - Hc).max()
print(f"create_dict(H=<float64 ndarray>) : max|stored - given| = {err_numpy:.3e}")
print(f"create_dict(H=<nested list>)     : max|stored - given| = {err_list:.3e}   dtype {d_list['H'].dtype}")

# consequence for the rotations
torch.manual_seed(0)
n = 3
psi_state = ComplexWaveFunction(n, unitary_dict=d_list, gpu=False)
rho_state = DensityMatrix(n, unitary_dict=d_list, gpu=False)
space = psi_state.generate_hilbert_space(n)
K = np.kron(np.kron(Hc, Hc), Hc)
psi = cplx.numpy(psi_state.psi(space))
rho = cplx.numpy(rho_state.rho(space, space))
e1 = np.abs(cplx.numpy(unitaries.rotate_psi(psi_state, "HHH", space)) - K @ psi).max() / np.abs(psi).max()
e2 = np.abs(cplx.numpy(unitaries.rotate_psi_inner_prod(psi_state, "HHH", space)) - K @ psi).max() / np.abs(psi).max()
probs = unitaries.rotate_rho_probs(rho_state, "HHH", space).numpy()
e3 = abs(probs.sum() - np.trace(rho).real) / np.trace(rho).real
print(f"relative error rotate_psi            : {e1:.3e}")
print(f"relative error rotate_psi_inner_prod : {e2:.3e}")
print(f"relative error of sum of rotated probabilities vs trace : {e3:.3e}")

assert err_list < 1e-12, (
    f"create_dict(H=nested list) stored the unitary with error {err_list:.3e} "
    f"(expected < 1e-12, as for the ndarray input: {err_numpy:.3e}); the list went through float32"
)
print("no defect")
