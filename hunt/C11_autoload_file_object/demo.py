"""D1 (C11): autoload() from a file object fails.

The docstring of NeuralStateBase.autoload documents `location` as "str or file"
(same as save()/load()).  save(file) and load(file) work, but every autoload()
reads the file object twice (once itself, once through self.load) without
rewinding it, so the second torch.load starts at the end of the stream and raises.
"""
import io
import sys
import warnings

import torch

warnings.simplefilter("ignore")
from qucumber.nn_states import ComplexWaveFunction, DensityMatrix, PositiveWaveFunction

torch.manual_seed(0)
failures = []
for cls, args in [
    (PositiveWaveFunction, (2, 3)),
    (ComplexWaveFunction, (2, 3)),
    (DensityMatrix, (2, 3, 1)),
]:
    src = cls(*args, gpu=False)
    for net in src.networks:  # non-zero biases
        for p in getattr(src, net).parameters():
            p.data.normal_()

    buf = io.BytesIO()
    src.save(buf, {"note": "hello"})  # saving to a file object works

    # control: load() from the (rewound) file object into a compatible model works
    buf.seek(0)
    tgt = cls(*args, gpu=False)
    tgt.load(buf)
    for net in src.networks:
        for k, v in getattr(src, net).state_dict().items():
            assert torch.equal(v, getattr(tgt, net).state_dict()[k]), "control failed"
    print(f"{cls.__name__}: save(file) + load(file) reproduce the parameters  [ok]")

    # the defect: autoload() from the (rewound) file object
    buf.seek(0)
    try:
        auto = cls.autoload(buf, gpu=False)
    except Exception as e:  # noqa: BLE001
        print(f"{cls.__name__}: autoload(file) raised {type(e).__name__}: {str(e)[:70]}...")
        failures.append(cls.__name__)
        continue
    for net in src.networks:
        for k, v in getattr(src, net).state_dict().items():
            assert torch.equal(v, getattr(auto, net).state_dict()[k])
    print(f"{cls.__name__}: autoload(file) reproduces the parameters  [ok]")

assert not failures, (
    "expected: autoload(<file object>) returns a model with bit-identical parameters "
    f"(location is documented as 'str or file'); obtained: exception for {failures}"
)
