"""D3 - C13: System silently drops observables whose `name` collides; built-in observables that
compute different things (SigmaZ() vs SigmaZ(absolute=True), SWAP([0]) vs SWAP([1]), ...) share a name.

Run:  cd /tmp/wth2_H4 && PYTHONPATH=/tmp/wth2_H4 OMP_NUM_THREADS=2 /venv/bin/python /tmp/hunt2/H4/D3/demo.py

Clause of C13: "evaluating several observables together gives each the result it would get
alone on the same chain states"  (quantifier: "any observable ... and any set of observables").

Everything is deterministic: statistics(..., initial_state=chains, burn_in=0, steps=0)
evaluates the observables on exactly the given chain states.
chains = [[0,0],[1,1]]  ->  SigmaZ = [-1, +1]  (mean 0, var 2),   |SigmaZ| = [1, 1] (mean 1, var 0)
"""
import sys
import warnings

import torch

warnings.simplefilter("ignore")

from qucumber.nn_states import PositiveWaveFunction
from qucumber.observables import SigmaZ, SWAP, System

torch.manual_seed(0)
s = PositiveWaveFunction(2, 2, gpu=False)
s.rbm_am.visible_bias.data = torch.tensor([0.3, -0.2], dtype=torch.double)
chains = torch.tensor([[0.0, 0.0], [1.0, 1.0]], dtype=torch.double)

mz, mz_abs = SigmaZ(), SigmaZ(absolute=True)
kw = dict(num_samples=2, burn_in=0, steps=0, initial_state=chains)
alone = [mz.statistics(s, **kw), mz_abs.statistics(s, **kw)]
print("alone  SigmaZ()              :", alone[0])
print("alone  SigmaZ(absolute=True) :", alone[1])
assert alone[0]["mean"] == 0.0 and alone[1]["mean"] == 1.0

together = System(mz, mz_abs).statistics(s, **kw)
together_fs = System(mz, mz_abs).statistics_from_samples(s, chains)
print("System(SigmaZ(), SigmaZ(absolute=True)).statistics              ->", together)
print("System(SigmaZ(), SigmaZ(absolute=True)).statistics_from_samples ->", together_fs)

# second example: two different regions for the Renyi-2 / SWAP estimator
s3 = PositiveWaveFunction(3, 2, gpu=False)
sw = System(SWAP([0]), SWAP([0, 1])).statistics_from_samples(s3, torch.tensor([[0.0, 1, 0], [1, 0, 1], [1, 1, 0]], dtype=torch.double))
print("System(SWAP([0]), SWAP([0, 1])).statistics_from_samples          ->", sw)

n_expected = 2
problems = []
if len(together) != n_expected:
    problems.append(f"System.statistics returned {len(together)} result(s) for {n_expected} observables")
if len(together_fs) != n_expected:
    problems.append(f"System.statistics_from_samples returned {len(together_fs)} result(s) for {n_expected} observables")
if len(sw) != 2:
    problems.append(f"System(SWAP([0]), SWAP([0,1])) returned {len(sw)} result(s) for 2 observables")
# the entry that IS reported under the name of the first observable is not the first observable's result
if together[mz.name]["mean"] != alone[0]["mean"]:
    problems.append(
        f"result reported under name {mz.name!r}: mean {together[mz.name]['mean']}, variance {together[mz.name]['variance']}; "
        f"SigmaZ() alone on the same chain states: mean {alone[0]['mean']}, variance {alone[0]['variance']}"
    )
print()
for p in problems:
    print("DEFECT:", p)
assert not problems, (
    "expected one result per observable, each equal to the observable evaluated alone "
    f"(SigmaZ: mean 0.0 / |SigmaZ|: mean 1.0); obtained {together}"
)
print("no defect observed")
