"""C15 - modulus / norm / inverse / division lose their value for finite float64 operands
whose modulus lies outside [~1e-154, ~1.3e154]: the kernel squares the modulus on the way.

Reference: numpy complex128 arithmetic on the decoded operands.
"""
import sys
import numpy as np
import torch

from qucumber.utils import cplx
from qucumber.nn_states import DensityMatrix


def enc(z):
    z = np.asarray(z, dtype=complex)
    return torch.stack([torch.tensor(z.real.copy(), dtype=torch.double),
                        torch.tensor(z.imag.copy(), dtype=torch.double)])


failures = []


def check(name, got, exp, rtol=1e-9):
    got = np.asarray(got)
    exp = np.asarray(exp)
    with np.errstate(all="ignore"):
        ok = got.shape == exp.shape and np.all(np.isfinite(got)) and np.allclose(got, exp, rtol=rtol, atol=0.0)
    print(f"{'ok  ' if ok else 'FAIL'} {name}: expected {exp}, obtained {got}")
    if not ok:
        failures.append(name)


# every operand below is a finite, *normal* float64 number
for z in [3e-160 + 4e-160j, 1e-170 + 0j, 2e154 + 1e154j, 1e200 - 1e200j]:
    t = enc(z)
    v = enc([z, 2 * z])
    print(f"--- z = {z}")
    check("absolute_value(z)", cplx.absolute_value(t).numpy(), np.abs(z))
    check("norm(z)           ", cplx.norm(t).numpy(), np.abs(z))
    check("norm([z, 2z])     ", cplx.norm(v).numpy(), np.abs(z) * np.sqrt(5.0))
    check("inverse(z)        ", cplx.numpy(cplx.inverse(t)), 1 / np.asarray(z))
    check("elementwise_division(z, z)", cplx.numpy(cplx.elementwise_division(t, t)), np.asarray(z) / np.asarray(z))
    check("scalar_divide(1, z)", cplx.numpy(cplx.scalar_divide(enc(1.0), t)), 1 / np.asarray(z))
    check("scalar_divide([z,2z], z)", cplx.numpy(cplx.scalar_divide(v, t)), np.array([z, 2 * z]) / z)

# the same thing seen through the library's own use of the kernel: the weight
# rho(v', v) / rho(v, v) of a DensityMatrix whose two entries are finite and equal
print("--- importance_sampling_weight of a DensityMatrix")
torch.manual_seed(0)
st = DensityMatrix(2, num_hidden=1, num_aux=1, gpu=False)
for bias in (+200.0, -200.0):
    st.rbm_am.visible_bias.data.fill_(bias)
    v = torch.ones(1, 2, dtype=torch.double)
    num = cplx.numpy(st.importance_sampling_numerator(v, v))
    den = cplx.numpy(st.importance_sampling_denominator(v))
    print(f"visible bias {bias}: rho(v,v) = {num}, denominator = {den}")
    check("rho(v,v)/rho(v,v)", cplx.numpy(st.importance_sampling_weight(v, v)), num / den)

if failures:
    print(f"\n{len(failures)} checks failed")
    sys.exit(1)
print("all good")
