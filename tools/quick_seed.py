#!/usr/bin/env python3
"""Apply a patch to a scratch copy of /repo/qucumber and run checks (no tests, no demo)."""
import os, shutil, subprocess, sys, tempfile
patch, pids = sys.argv[1], sys.argv[2:]
d = tempfile.mkdtemp(prefix="qs_")
try:
    shutil.copytree("/repo/qucumber", d + "/qucumber")
    r = subprocess.run(["git", "apply", "--whitespace=nowarn", os.path.abspath(patch)], cwd=d, capture_output=True, text=True)
    if r.returncode:
        print("patch does not apply", r.stderr[:200]); sys.exit(3)
    for p in pids or ["C%02d" % i for i in range(1, 21)]:
        c = subprocess.run([sys.executable, "/verif/check", p], env=dict(os.environ, QSA_REPO=d, QSA_EVIDENCE_DIR=d + "/ev"), capture_output=True, text=True)
        if c.returncode or pids:
            first = [l.strip()[:300] for l in c.stdout.splitlines() if l.startswith("  rule=") or l.startswith("UNDECIDED") or l.startswith("ANALYSIS")][:2]
            print(p, "exit", c.returncode, first)
finally:
    shutil.rmtree(d, ignore_errors=True)
