#!/usr/bin/env python3
"""Evaluate a seeded change: usage  eval_seed.py <dir with patch.diff, demo.py> <PID> [--no-tests]
Confirms (in a scratch worktree under /tmp): patch applies, suite still 245 passed, demo passes clean / fails changed;
then runs all checks against the changed tree (QSA_REPO) and reports which fire."""
import json, os, subprocess, sys, tempfile, shutil, re
d, pid = sys.argv[1], sys.argv[2]
run_tests = "--no-tests" not in sys.argv
patch = os.path.join(d, "patch.diff")
demo = os.path.join(d, "demo.py")
wt = tempfile.mkdtemp(prefix="evalwt_")
os.rmdir(wt)
out = {"dir": d, "property": pid}
try:
    subprocess.run(["git", "-C", "/repo", "worktree", "add", "-q", "--detach", wt, "HEAD"], check=True)
    def demo_run(tree):
        r = subprocess.run(["/venv/bin/python", os.path.abspath(demo)], cwd=tree, env=dict(os.environ, PYTHONPATH=tree), capture_output=True, text=True, timeout=900)
        return r.returncode, (r.stdout + r.stderr)[-300:]
    out["demo_clean"] = demo_run(wt)[0]
    r = subprocess.run(["git", "-C", wt, "apply", "--whitespace=nowarn", os.path.abspath(patch)], capture_output=True, text=True)
    out["applies"] = r.returncode == 0
    if not out["applies"]:
        out["apply_err"] = r.stderr[:300]
    else:
        rc, tail = demo_run(wt)
        out["demo_changed"] = rc
        out["demo_tail"] = tail.strip().splitlines()[-1:] 
        if run_tests:
            t = subprocess.run(["env", "OMP_NUM_THREADS=2", "MKL_NUM_THREADS=2", "/venv/bin/python", "-m", "pytest", "-q", "-p", "no:cacheprovider", "--timeout=900", "--continue-on-collection-errors"], cwd=wt, capture_output=True, text=True)
            m = re.search(r"(\d+) passed", t.stdout)
            out["tests_passed"] = int(m.group(1)) if m else None
            out["tests_failed"] = "failed" in t.stdout.splitlines()[-1] if t.stdout.splitlines() else None
        fired = {}
        for p in ["C%02d" % i for i in range(1, 21)]:
            ev = tempfile.mkdtemp(prefix="ev_")
            c = subprocess.run([sys.executable, "/verif/check", p], env=dict(os.environ, QSA_REPO=wt, QSA_EVIDENCE_DIR=ev), capture_output=True, text=True)
            shutil.rmtree(ev, ignore_errors=True)
            if c.returncode != 0:
                first = next((l.strip()[:260] for l in c.stdout.splitlines() if l.startswith("  rule=") or l.startswith("UNDECIDED") or l.startswith("ANALYSIS")), "")
                fired[p] = (c.returncode, first)
        out["fired"] = fired
        out["own_check_exit"] = fired.get(pid, (0, ""))[0]
finally:
    subprocess.run(["git", "-C", "/repo", "worktree", "remove", "--force", wt], capture_output=True)
print(json.dumps(out, indent=1))
