#!/usr/bin/env python3
"""seed_reasons.py [ids...]: for every stored seeded change, apply it to a scratch copy, run the property's own check and print
the rules that report a VIOLATION with the first message of each - the material for reading *why* a seed is caught."""
import json, os, shutil, subprocess, sys, tempfile, re
from concurrent.futures import ThreadPoolExecutor
root = "/verif/seeded"
ids = sys.argv[1:] or sorted(d for d in os.listdir(root) if re.match(r"C\d\d_[A-Z]$", d))
def one(sid):
    pid = sid.split("_")[0]
    d = tempfile.mkdtemp(prefix="sr_")
    try:
        shutil.copytree("/repo/qucumber", d + "/qucumber")
        r = subprocess.run(["git", "apply", "--whitespace=nowarn", os.path.join(root, sid, "patch.diff")], cwd=d, capture_output=True, text=True)
        if r.returncode:
            return sid, None, "patch does not apply"
        c = subprocess.run([sys.executable, "/verif/check", pid], env=dict(os.environ, QSA_REPO=d, QSA_EVIDENCE_DIR=d + "/ev"), capture_output=True, text=True)
        rules = {}
        for l in c.stdout.splitlines():
            m = re.match(r"\s+rule=(\S+) instance=(.*?) site=\S+: (.*)", l)
            if m and m.group(1) not in rules:
                rules[m.group(1)] = (m.group(2)[:90], m.group(3)[:200])
        return sid, c.returncode, rules
    finally:
        shutil.rmtree(d, ignore_errors=True)
out = {}
with ThreadPoolExecutor(6) as ex:
    for sid, rc, rules in ex.map(one, ids):
        out[sid] = {"exit": rc, "rules": rules}
        print(sid, rc, json.dumps(rules)[:600] if isinstance(rules, dict) else rules, flush=True)
json.dump(out, open("/tmp/seed_reasons.json", "w"), indent=1)
