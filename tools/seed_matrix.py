#!/usr/bin/env python3
"""seed_matrix.py <root> <ids...>: apply each <root>/<PID>/<X>/patch.diff to a scratch copy and run all 20 quick checks (no tests)."""
import os, shutil, subprocess, sys, tempfile, json
from concurrent.futures import ThreadPoolExecutor
root = sys.argv[1]
ids = sys.argv[2:]
def one(sid):
    pid, x = sid.split("_")
    patch = os.path.join(root, pid, x, "patch.diff")
    d = tempfile.mkdtemp(prefix="qs_")
    out = {}
    try:
        shutil.copytree("/repo/qucumber", d + "/qucumber")
        r = subprocess.run(["git", "apply", "--whitespace=nowarn", os.path.abspath(patch)], cwd=d, capture_output=True, text=True)
        if r.returncode:
            return sid, {"apply": r.stderr[:200]}
        for p in ["C%02d" % i for i in range(1, 21)]:
            c = subprocess.run([sys.executable, "/verif/check", p], env=dict(os.environ, QSA_REPO=d, QSA_EVIDENCE_DIR=d + "/ev"), capture_output=True, text=True)
            if c.returncode:
                first = [l.strip()[:240] for l in c.stdout.splitlines() if l.startswith("  rule=") or l.startswith("UNDECIDED") or l.startswith("ANALYSIS")][:1]
                out[p] = (c.returncode, first[0] if first else "")
    finally:
        shutil.rmtree(d, ignore_errors=True)
    return sid, out
with ThreadPoolExecutor(max_workers=6) as ex:
    for sid, out in ex.map(one, ids):
        own = sid.split("_")[0]
        print("%s own=%s others=%s" % (sid, out.get(own, (0,))[0], {k: v[0] for k, v in out.items() if k != own}))
        for k, v in out.items():
            print("     %s %s %s" % (k, v[0], v[1]) if isinstance(v, tuple) else "     %s %s" % (k, v))
