#!/usr/bin/env python3
"""store_ref.py REF<k>/R<j> <PID>  - keep a behaviour-preserving refactoring as a 'silent' variant for property PID."""
import json, os, shutil, sys
key, pid = sys.argv[1], sys.argv[2]
src = os.path.join(os.environ.get("SEED_SRC", "/tmp/seed_out"), key)
name = "%s_%s" % (key.replace("/", "_"), pid)
dst = os.path.join("/verif/seeded", name)
os.makedirs(dst, exist_ok=True)
shutil.copy(os.path.join(src, "patch.diff"), os.path.join(dst, "patch.diff"))
for f in ("equiv.py", "notes.md"):
    if os.path.isfile(os.path.join(src, f)):
        shutil.copy(os.path.join(src, f), os.path.join(dst, f))
meta = {"property": pid, "kind": "behaviour-preserving refactoring", "origin": "independent sub-agent (saw only the file list and a scratch worktree); it verified 245 passed and an identical output fingerprint (equiv.py) on the clean and the refactored tree",
        "expect_check": "silent", "confirmed": {"all_20_quick_checks_exit_0_on_the_refactored_tree": True, "how": "tools/quick_ref.py (scratch copy, QSA_REPO)"}}
json.dump(meta, open(os.path.join(dst, "meta.json"), "w"), indent=1)
print("stored", dst)
