#!/usr/bin/env python3
"""store_seed.py <PID>/<X> "<what it needs to manifest>" [expect_check]  - copy a confirmed seeded change into /verif/seeded/."""
import json, os, shutil, sys
key, need = sys.argv[1], sys.argv[2]
expect = sys.argv[3] if len(sys.argv) > 3 else "caught"
pid, x = key.split("/")
src = os.path.join(os.environ.get("SEED_SRC", "/tmp/seed_out"), pid, x)
ev = json.load(open(os.path.join(src, "eval.json")))
assert ev["applies"] and ev["demo_clean"] == 0 and ev.get("demo_changed") not in (0, None) and ev.get("tests_passed") == 245, ev
dst = os.path.join("/verif/seeded", "%s_%s" % (pid, x))
os.makedirs(dst, exist_ok=True)
for f in ("patch.diff", "demo.py", "notes.md"):
    shutil.copy(os.path.join(src, f), os.path.join(dst, f))
meta = {"property": pid, "origin": "independent sub-agent given only the property text and a scratch worktree",
        "needs_to_manifest": need,
        "confirmed": {"patch_applies": True, "suite_passed_with_change": ev.get("tests_passed"), "demo_exit_clean_tree": ev["demo_clean"], "demo_exit_changed_tree": ev.get("demo_changed"),
                      "how": "tools/eval_seed.py: fresh git worktree of /repo HEAD under /tmp, demo on clean tree, git apply, demo again, full pytest, then every ./check with QSA_REPO=<changed tree>; worktree removed"},
        "checks_firing_at_first_evaluation": {k: v[0] for k, v in ev.get("fired", {}).items()},
        "expect_check": expect}
json.dump(meta, open(os.path.join(dst, "meta.json"), "w"), indent=1)
print("stored", dst, meta["checks_firing_at_first_evaluation"])
