#!/usr/bin/env python3
"""ref_matrix.py: every stored behaviour-preserving refactoring (seeded/REF*) against all 20 quick checks; expects exit 0 everywhere."""
import os, shutil, subprocess, sys, tempfile, glob
from concurrent.futures import ThreadPoolExecutor
dirs = sorted(glob.glob("/verif/seeded/REF*"))
def one(d0):
    d = tempfile.mkdtemp(prefix="qr_")
    out = {}
    try:
        shutil.copytree("/repo/qucumber", d + "/qucumber")
        r = subprocess.run(["git", "apply", "--whitespace=nowarn", os.path.join(d0, "patch.diff")], cwd=d, capture_output=True, text=True)
        if r.returncode:
            return d0, {"apply": r.stderr[:200]}
        for p in ["C%02d" % i for i in range(1, 21)]:
            c = subprocess.run([sys.executable, "/verif/check", p], env=dict(os.environ, QSA_REPO=d, QSA_EVIDENCE_DIR=d + "/ev"), capture_output=True, text=True)
            if c.returncode:
                first = [l.strip()[:260] for l in c.stdout.splitlines() if l.startswith("  rule=") or l.startswith("UNDECIDED") or l.startswith("ANALYSIS")][:1]
                out[p] = (c.returncode, first[0] if first else "")
    finally:
        shutil.rmtree(d, ignore_errors=True)
    return d0, out
import json
bad = und = 0
with ThreadPoolExecutor(max_workers=7) as ex:
    for d0, out in ex.map(one, dirs):
        try:
            expect = json.load(open(os.path.join(d0, "meta.json"))).get("expect_check", "silent")
        except Exception:
            expect = "silent"
        if expect == "undecided":
            # recorded limit of the analyser: UNDECIDED (exit 2) is expected, a VIOLATION (exit 1) never
            und += 1
            if any(v[0] == 1 for v in out.values() if isinstance(v, tuple)) or "apply" in out:
                bad += 1
                print(os.path.basename(d0), "VIOLATION on a behaviour-preserving variant", out)
            continue
        try:
            allowed = set(json.load(open(os.path.join(d0, "meta.json"))).get("other_checks_undecided", []))
        except Exception:
            allowed = set()
        out = {k: v for k, v in out.items() if not (k in allowed and isinstance(v, tuple) and v[0] == 2)}  # recorded: another property's check is UNDECIDED on this variant
        if out:
            bad += 1
            print(os.path.basename(d0), out)
print("refactorings:", len(dirs), "(of which %d recorded as undecided)" % und, "with a non-zero check:", bad)
