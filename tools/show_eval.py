import json,sys
for s in sys.argv[1:]:
    try:
        d=json.load(open('/tmp/seed_out/%s/eval.json'%s))
        print(s, 'clean',d['demo_clean'],'changed',d.get('demo_changed'),'tests',d.get('tests_passed'),'own',d.get('own_check_exit'))
        for k,v in d.get('fired',{}).items(): print('      ',k,v[0],v[1][:200])
    except Exception as e: print(s,'not ready',e)
