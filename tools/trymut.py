#!/usr/bin/env python3
"""Dev helper: run a check against a scratch copy of /repo/qucumber with one textual edit.
usage: trymut.py <PID> <relative file> <old> <new> [count]"""
import os, shutil, subprocess, sys, tempfile
pid, rel, old, new = sys.argv[1:5]
cnt = int(sys.argv[5]) if len(sys.argv) > 5 else 1
d = tempfile.mkdtemp(prefix="qsa_mut_")
try:
    shutil.copytree("/repo/qucumber", os.path.join(d, "qucumber"))
    p = os.path.join(d, rel)
    s = open(p).read()
    if s.count(old) < 1:
        print("pattern not found"); sys.exit(3)
    s = s.replace(old, new, cnt)
    open(p, "w").write(s)
    env = dict(os.environ, QSA_REPO=d, QSA_EVIDENCE_DIR=os.path.join(d, "ev"))
    r = subprocess.run([sys.executable, "/verif/check"] + pid.split(), env=env, capture_output=True, text=True)
    print(r.stdout[-60000:], r.stderr[-2000:])
    print("exit", r.returncode)
finally:
    shutil.rmtree(d)
