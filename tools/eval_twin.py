#!/usr/bin/env python3
"""eval_twin.py <twin patch> <seed dir (patch.diff, demo.py)> <PID> <name> [--store]
A repaired twin of a seeded change (the same restructuring with its single mistake repaired): confirm in a scratch worktree of
/repo HEAD that the seed's own demo passes on it and the suite still gives 245 passed, then run all 20 quick checks against it.
With --store the twin is kept as /verif/seeded/<name>_<PID> (expect_check silent, or undecided when its own check says so)."""
import json, os, re, shutil, subprocess, sys, tempfile

patch, seed, pid, name = sys.argv[1:5]
store = "--store" in sys.argv
wt = tempfile.mkdtemp(prefix="twinwt_")
os.rmdir(wt)
out = {"twin": patch, "seed": seed, "property": pid}
try:
    subprocess.run(["git", "-C", "/repo", "worktree", "add", "-q", "--detach", wt, "HEAD"], check=True)
    r = subprocess.run(["git", "-C", wt, "apply", "--whitespace=nowarn", os.path.abspath(patch)], capture_output=True, text=True)
    out["applies"] = r.returncode == 0
    if out["applies"]:
        d = subprocess.run(["/venv/bin/python", os.path.join(os.path.abspath(seed), "demo.py")], cwd=wt, env=dict(os.environ, PYTHONPATH=wt), capture_output=True, text=True, timeout=1800)
        out["seed_demo_exit_on_twin"] = d.returncode
        t = subprocess.run(["env", "OMP_NUM_THREADS=2", "MKL_NUM_THREADS=2", "/venv/bin/python", "-m", "pytest", "-q", "-p", "no:cacheprovider", "--timeout=900", "--continue-on-collection-errors"], cwd=wt, capture_output=True, text=True)
        m = re.search(r"(\d+) passed", t.stdout)
        out["tests_passed"] = int(m.group(1)) if m else None
        fired = {}
        for p in ["C%02d" % i for i in range(1, 21)]:
            ev = tempfile.mkdtemp(prefix="ev_")
            c = subprocess.run([sys.executable, "/verif/check", p], env=dict(os.environ, QSA_REPO=wt, QSA_EVIDENCE_DIR=ev), capture_output=True, text=True)
            shutil.rmtree(ev, ignore_errors=True)
            if c.returncode != 0:
                first = next((l.strip()[:260] for l in c.stdout.splitlines() if l.startswith("  rule=") or l.startswith("UNDECIDED") or l.startswith("ANALYSIS")), "")
                fired[p] = (c.returncode, first)
        out["fired"] = fired
finally:
    subprocess.run(["git", "-C", "/repo", "worktree", "remove", "--force", wt], capture_output=True)
ok = out.get("applies") and out.get("seed_demo_exit_on_twin") == 0 and out.get("tests_passed") == 245 and not any(v[0] == 1 for v in out.get("fired", {}).values())
out["confirmed"] = bool(ok)
print(json.dumps(out, indent=1))
if store and ok:
    dst = os.path.join("/verif/seeded", "%s_%s" % (name, pid))
    os.makedirs(dst, exist_ok=True)
    shutil.copy(patch, os.path.join(dst, "patch.diff"))
    und = sorted(k for k, v in out["fired"].items() if v[0] == 2)
    meta = {"property": pid, "kind": "behaviour-preserving large rewrite (repaired twin of a seeded change)",
            "origin": "the restructuring of seeded change %s (independent sub-agent) with its single mistake repaired by the author of the checks" % os.path.basename(os.path.dirname(os.path.abspath(seed)) + "_" + os.path.basename(os.path.abspath(seed))),
            "expect_check": "undecided" if pid in und else "silent",
            "confirmed": {"behaviour": "in a scratch worktree of /repo HEAD with the patch applied: the seeded change's own demo (which fails on the seeded change) exits 0, and the suite gives 245 passed",
                          "checks": "tools/eval_twin.py (scratch worktree, QSA_REPO): no VIOLATION line" + ("; UNDECIDED as recorded" if und else "; all 20 quick checks exit 0")}}
    if pid in und:
        meta["why_undecided"] = out["fired"][pid][1]
    others = [k for k in und if k != pid]
    if others:
        meta["other_checks_undecided"] = others
    json.dump(meta, open(os.path.join(dst, "meta.json"), "w"), indent=1)
    print("stored", dst)
