#!/usr/bin/env python3
"""Run all (or given) checks on a scratch copy with a behaviour-preserving patch; print non-zero exits."""
import os, shutil, subprocess, sys, tempfile
from concurrent.futures import ThreadPoolExecutor
patch = sys.argv[1]; pids = sys.argv[2:] or ["C%02d" % i for i in range(1, 21)]
d = tempfile.mkdtemp(prefix="qr_")
try:
    shutil.copytree("/repo/qucumber", d + "/qucumber")
    r = subprocess.run(["git", "apply", "--whitespace=nowarn", os.path.abspath(patch)], cwd=d, capture_output=True, text=True)
    if r.returncode:
        print("patch does not apply", r.stderr[:200]); sys.exit(3)
    def one(p):
        ev = tempfile.mkdtemp(prefix="ev_")
        c = subprocess.run([sys.executable, "/verif/check", p], env=dict(os.environ, QSA_REPO=d, QSA_EVIDENCE_DIR=ev), capture_output=True, text=True)
        shutil.rmtree(ev, ignore_errors=True)
        return p, c
    bad = 0
    with ThreadPoolExecutor(8) as ex:
        for p, c in ex.map(one, pids):
            if c.returncode:
                bad += 1
                first = [l.strip()[:330] for l in c.stdout.splitlines() if l.startswith("  rule=") or l.startswith("UNDECIDED") or l.startswith("ANALYSIS")][:2]
                print("   ", p, "exit", c.returncode, first)
    print(os.path.basename(os.path.dirname(patch)), "non-zero:", bad)
finally:
    shutil.rmtree(d, ignore_errors=True)
