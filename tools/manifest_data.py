"""Per-property claim texts for MANIFEST.json (source of truth; run tools/gen_manifest.py)."""

TB = ("Trusted base: CPython's ast; the op tables of qsa (kind/shape/alias/term semantics of ~150 torch, numpy and builtin "
      "operations); torch.nn.Module / torch.optim semantics; mathematical facts hard-wired in the rule; Sphinx-free receiver typing "
      "by abstract interpretation of the constructors. ")

CHECKS = {
    "C01": {
        "technique": "static analysis: abstract interpretation over a hash-consed term domain (normal forms of the defining formulas), symbolic shapes, exact dependence sets; history independence by a three-call abstract interpretation (parameters replaced, inputs overwritten in place) compared under symbol renaming",
        "text": "Decides, for every parameter value at once, the structural clauses of the Born rule: amplitude^2 == unnormalised probability == exp(-E_lambda) as "
                "identities of normal forms between sibling methods; psi == A(cos phi, sin phi); complex phase == -E_mu/2; positive state real with zero phase; energy == "
                "-v.b - sum softplus(Wv+c); partition == sum exp(-E); exact dependence sets; vector and batched call forms (shapes). A static rule reasons about the code once; tests only sample zero-bias models.",
        "design_ref": "DESIGN.md section 4 C01",
        "note": TB + "Not decided: floating-point agreement, overflow of exp, numeric unit norm. softplus(x)=log sum_h exp(hx) is the trusted identity linking the energy to the hidden-unit marginal.",
    },
    "C02": {
        "technique": "static analysis: term normal forms + exchange-parity proof (Hermiticity), symbolic shapes with distinct axis symbols (row/column convention), dependence sets; history independence by a three-call abstract interpretation (parameters replaced, inputs overwritten in place) compared under symbol renaming",
        "text": "Proves Hermiticity of rho for all parameters by showing log|rho| symmetric and arg rho antisymmetric under exchange of the two configurations (three call forms); "
                "checks that all matrix-valued functions put v on rows and vp on columns; proves rho(s,s) == (exp(-E_am(s)), 0) == reported probability (uses 1+2e^x+e^{2x}=(1+e^x)^2); "
                "energy / partition normal forms of the purification RBM; exact dependence of rho on every bias.",
        "design_ref": "DESIGN.md section 4 C02",
        "note": TB + "Not decided: positive semidefiniteness, entry-wise equality with the partial trace of the purification off the diagonal, numeric trace.",
    },
    "C05": {
        "technique": "static analysis: term normal forms of the conditionals, loop summarisation (first + generic iteration) of the Gibbs loop, alias/effect facet for overwrite semantics; history independence by a three-call abstract interpretation (parameters replaced, inputs overwritten in place) compared under symbol renaming (incl. 'each call hands out its own tensor')",
        "text": "Decides that each conditional is sigmoid of the energy's own pre-activation with every bias, samplers are torch.bernoulli of that probability, one step samples all hidden "
                "(and auxiliary) units from the current visible state and then the visible units from those fresh draws, the loop runs exactly k times (k=0 returns the start state, k=2 is the two-fold composition), "
                "and the caller's start state is written iff overwrite=True (through sample() of all three state types).",
        "design_ref": "DESIGN.md section 4 C05",
        "note": TB + "Not decided: the empirical law / detailed balance as numbers (they follow mathematically from exact conditionals and the hidden-then-visible order).",
    },
    "C08": {
        "technique": "static analysis: effect analysis (no write reaches the caller's batch), term normal forms of the local estimators, call-record binding checks, loop summarisation; history independence by a three-call abstract interpretation (parameters replaced, inputs overwritten in place) compared under symbol renaming; necessary-condition rules imported from C01.R1-R3 and C02",
        "text": "For SigmaX/Y/Z and NeighbourInteraction (open/periodic) on all three state types: apply never writes samples or parameters; result is real of shape (B,); the X/Y estimators "
                "sum psi(flip_i s)/psi(s) (times i(2s_i-1) for Y, taken from the unflipped sample at the same site) over all sites, divide by the denominator of the unflipped batch and by the number of sites; "
                "Z is 2*mean-1; ZZ pairs (i, i+c) with the same c; importance weight == numerator(vp,v)/denominator(v) with rho(vp,v) argument order.",
        "design_ref": "DESIGN.md section 4 C08",
        "note": TB + "Not decided: numeric equality of the exact expectation with Tr(rho O). Z sign convention is the library's documented to_pm1 map.",
    },
    "C09": {
        "technique": "static analysis: effect/alias analysis with view semantics, functional-update terms for the exchange, call-record binding checks; history independence by a three-call abstract interpretation (parameters replaced, inputs overwritten in place) compared under symbol renaming; necessary-condition rules imported from C01.R1-R3 and C02; storage identity of what is written back",
        "text": "swap is a correct three-step exchange on region A for int, list and unknown-kind regions (the temporary must be a copy because x[:, int] is a view); SWAP.apply never writes the batch, "
                "passes fresh copies to swap, pairs each sample with a non-zero cyclic roll along the batch axis, weights swapped_k against original_k and returns Re(w1*w2) of shape (B,).",
        "design_ref": "DESIGN.md section 4 C09",
        "note": TB + "Not decided: that the average equals Tr rho_A^2, entropy inequalities.",
    },
    "C11": {
        "technique": "static analysis: effect analysis on the metadata argument / model, path partitioning for reserved keys, writer/reader agreement between save, load and the three autoloads",
        "text": "save writes neither its metadata argument nor the model (four metadata contexts x three state types); reserved keys are refused before torch.save; the payload holds each network's "
                "state_dict (registration order), the unitary dictionary and the metadata; load restores every network and the unitary dictionary from the given location; autoload infers each size "
                "from a stored parameter of the matching shape, passes the stored unitaries to the constructor and loads the same location.",
        "design_ref": "DESIGN.md section 4 C11",
        "note": TB + "Not decided: bit-identical round trip of torch serialisation.",
    },
    "C12": {
        "technique": "static analysis: typestate/protocol check - product of fit's CFG with the sticky stop flag compared (language inclusion both ways) with a reference automaton; effect facet locates parameter writes; necessary-condition rules imported from C07.R6; event arguments and epoch range decided on values of an interpretation with symbolic (starting_epoch, epochs)",
        "text": "All stop points at once: the event language of fit (flag may be set inside any of the six events) equals the documented protocol for flag-at-entry 0 and 1; parameter effects occur only "
                "between batch-start and batch-end; epoch range and event arguments; CallbackList dispatch order/arguments; LambdaCallback arities; no library code clears the flag; the setter rejects non-booleans.",
        "design_ref": "DESIGN.md section 4 C12",
        "note": TB + "Callbacks are opaque user code that may set the flag in any event; exceptions raised by callbacks and tqdm are out of scope. Counterexamples are shortest distinguishing event traces.",
    },
    "C13": {
        "technique": "static analysis: rational-function identity test of the pairwise merge, integer lower-bound reasoning with path facts (divisor != 0), loop summarisation + call records for the schedule; necessary-condition rules imported from C08.R1 and C16.R5; same-name observables context (known finding recorded in known_findings.json)",
        "text": "The merge routine equals the Chan pairwise update as an identity of rational functions on the generic branch and never divides by zero / uses the undefined variance of a one-element chunk; "
                "both statistics drivers draw ceil(n/chains) times, use burn_in first and steps afterwards on the same continuing chains (overwrite=True internally), touch initial_state only under overwrite, "
                "evaluate every observable on the chain state of the current draw, and report chains x draws.",
        "design_ref": "DESIGN.md section 4 C13",
        "note": TB + "Not decided: the distribution of the draws. torch.var_mean is trusted to return the unbiased variance (NaN for one value).",
    },
    "C14": {
        "technique": "static analysis: exhaustive who-may-call query over resolved names for randomness sources, must-reach check for seeding, whole-API effect analysis for parameter writes; class-level objects mutated through instances (state shared between models)",
        "text": "Every randomness source in the package is a consumer of torch's default generator (numpy/python RNGs, explicit generators and set iteration are violations; the matcher is kept honest by an "
                "embedded positive example); set_random_seed passes the caller's seed to torch.manual_seed on every path; ~145 read-only entry contexts (states, RBMs, observables, metrics, rotations, save) "
                "have an empty parameter-effect set while the whitelisted writers are seen writing.",
        "design_ref": "DESIGN.md section 4 C14",
        "note": TB + "Not decided: 'a different seed gives different draws'; determinism of torch kernels. User callables are assumed to touch state only through the public API.",
    },
    "C15": {
        "technique": "static analysis: term normal forms of every kernel against the complex multiplication table, ordered symbolic shapes for the Kronecker layout, path partitioning for guards; operand purity (no write into an operand), float-width facet (a float32 operand never narrows a float64 one), numeric-hazard catalogue for the complex sigmoid decided by cases of elementwise selections",
        "text": "Sign tables of scalar/elementwise/matrix/einsum/inner/outer products and conjugations, real/imag slot order of construction and conversion, x-major Kronecker layout for non-square operands, "
                "errors raised before any write for aliasing out= buffers and unsupported ranks, and inverse / division / modulus / norms as rational-function identities.",
        "design_ref": "DESIGN.md section 4 C15",
        "note": TB + "Not decided: numeric agreement for all shapes/broadcasts, float32/float64 mixing, numpy's complex exp inside cplx.sigmoid.",
    },
}

CHECKS.update({
    "C03": {
        "technique": "static analysis: callability by abstract interpretation with virtual dispatch (definite AttributeError = violation), ordered symbolic shapes for the gradient-vector layout, term normal forms against a derivative table, loop summarisation + call records for per-basis grouping; history independence of gradient() (each call hands out its own tensors; parameters replaced by p.data = new and by reinitialize_parameters())",
        "text": "Every public gradient method of the three state types is callable (all paths); every gradient vector (10 producers, reduce/expand/phase contexts) has its segments in parameter registration order with "
                "hidden-major weight flattening (ordered products: a transposed W segment is a layout error even though every test has nh == nv); energy-gradient segments equal -sigmoid(the energy's own pre-activation) x v etc.; "
                "positive phase = gradient / rows of the same batch; group i uses basis unique[i] and samples[inverse == i], contribution k accumulated into gradient k, all-Z groups add no phase gradient; "
                "exact negative phase = -G^T p/sum p on the amplitude network only.",
        "design_ref": "DESIGN.md section 4 C03",
        "note": TB + "Not decided: analytic correctness of rotated_gradient / pi_grad (derivatives through the basis rotation and the complex logarithm), the 1e-8 regulariser, finite-difference agreement.",
    },
    "C04": {
        "technique": "static analysis: exact constant evaluation of the default unitaries over Q(sqrt 2), axis-role binding of index tensors vs einsum factors, index provenance (dependence) in the gather, order polarity of the Kronecker sweep; history independence by a three-call abstract interpretation (parameters replaced, inputs overwritten in place) compared under symbol renaming; exact 1-4 site instances of the Kronecker sweep; sibling equality of the two call forms; per-path rule on the rotation factor (complex entries of user unitaries), storage freshness of create_dict(), float-width facet (python floats stored as float32), identity-skip cases of the Kronecker sweep decided from condition values",
        "text": "Z is the identity, X and Y are unitary with U sigma U^dagger = diag(+1,-1) (rows = conjugated +1/-1 eigenvectors, exact arithmetic); in rotate_rho_probs both the model path and the explicit-rho path bind rho's "
                "row index to the non-conjugated factor U and its column index to conj(U), and reductions remove exactly the expansion axes; the unitary is gathered as [site, :, measured outcome, summed input]; "
                "sites are swept last-to-first with a stride starting at 1 (site 0 = leftmost Kronecker factor); rotate_rho = U (U rho)^dagger.",
        "design_ref": "DESIGN.md section 4 C04",
        "note": TB + "Not decided: numeric equality with the dense Kronecker product, non-negativity / normalisation of rotated probabilities, the in-place block arithmetic of _kron_mult beyond the stride order.",
    },
    "C06": {
        "technique": "static analysis: term normal form of the CD update as a linear form (assume/guarantee stub for the positive phase), CFG dominance for the per-batch pipeline and the scheduler, effect/call-record pairing of gradient vectors with networks, exact slice offsets of vector_to_grads; necessary-condition rules imported from C03.R2; call sites of fit resolved by interpretation (not by receiver names), per-path operation timeline; container-effect rule on caller-owned option dictionaries",
        "text": "compute_batch_gradients == [positive[0] - E_grad(gibbs_steps(k, neg_batch)) / rows(neg_batch), positive[1]] with k and the negative batch forwarded unchanged (all state types); in fit the gradients are "
                "computed, assigned network by network (gradient i -> parameters of network i) and applied by exactly one unconditional optimizer.step() per batch, never cleared in between; the optimizer is built over all "
                "parameters with the caller's lr; scheduler.step() runs exactly once per epoch outside the batch loop; vector_to_grads writes vec[offset : offset+numel] reshaped to each parameter in parameters() order with exact polynomial offsets.",
        "design_ref": "DESIGN.md section 4 C06",
        "note": TB + "Not decided: what torch.optim.SGD.step does with the gradient (trusted), numeric equality of the parameter move.",
    },
    "C07": {
        "technique": "static analysis: def-use identity of the random permutation (unique draw atoms), tiling of comprehension ranges, integer linear forms for batch counts, effect analysis on the caller's data; repeated-call contexts (another data set, same batch sizes); unrecognised batch structure is undecided",
        "text": "Samples and bases are indexed by the same randperm(N) draw and cut by the same range(0, N, b) into slices [s, s+b); num_batches = ceil(N/b) is what fit passes on, negative rows are num_batches*neg_batch_size "
                "random rows (bounded by the row count of the tensor they index) of the training data or of the all-Z rows, giving exactly num_batches negative batches so zip drops nothing; fit never writes data or input_bases "
                "for tensor, ndarray and list inputs.",
        "design_ref": "DESIGN.md section 4 C07",
        "note": TB + "Not decided: uniformity of the shuffle. In the shared-permutation case the last negative batch has the size of the last positive batch (documented design).",
    },
    "C10": {
        "technique": "static analysis: value-kind analysis of every return path, homogeneity degree of the normalisation constant seen through (multi)linear operations, term normal forms and call-record binding of KL/NLL; history independence by a three-call abstract interpretation (parameters replaced, inputs overwritten in place) compared under symbol renaming; necessary-condition rules imported from C01, C02, C04.R2/R4",
        "text": "fidelity, KL and NLL return a Python/numpy float on every path of every state type; model probabilities inside every logarithm and the overlap have degree exactly -1 in Z (divided once); "
                "single-basis KL == sum t log t - sum t log m and is called with (target, model); KL is the mean over the bases, NLL == -(1/N) sum over basis groups of sum log p with each group's samples rotated with the group's "
                "own basis; target and model are rotated by the same routine with the same (basis, space).",
        "design_ref": "DESIGN.md section 4 C10",
        "note": TB + "Not decided: the Uhlmann formula / eigenvalue computation, ranges, invariance under a global phase (numeric). The rotation routines are decided by C04.",
    },
    "C16": {
        "technique": "static analysis: abstract interpretation of the operator overloads and composite apply() with opaque leaf values (term normal forms), type-case enumeration of the constructors; history independence by a three-call abstract interpretation (parameters replaced, inputs overwritten in place) compared under symbol renaming; leaf results that are views of the batch are never written; order independence (an expression is unchanged by building larger ones from it)",
        "text": "All seven overloads with float / int / numpy.float64 / constant scalars in both operand positions and nested trees evaluate to exactly that arithmetic on the leaves' per-sample values; "
                "SumObservable adds each operand exactly once for every accepted type pair, ProdObservable stores (scalar, observable) whichever side the scalar was on; non-linear or non-numeric combinations "
                "are rejected at construction; composites inherit the statistics drivers, which evaluate the composite's own apply().",
        "design_ref": "DESIGN.md section 4 C16",
        "note": TB + "Not decided: behaviour of numpy scalar types' own __mul__/__add__ when they pre-empt the reflected operators.",
    },
    "C17": {
        "technique": "static analysis: path partitioning on the period gate (effects only on paths that established epoch % period == 0), writer/reader agreement between record layout and accessors after two evaluations, literal agreement of CSV keys, call-record binding for the saver; necessary-condition rules imported from C11.R1 and C12.R4; second-run rule for the model saver",
        "text": "MetricEvaluator, ObservableEvaluator, ModelSaver, Logger and EarlyStopping act only on multiples of the period and in no other event (ModelSaver.on_train_start iff save_initial); each evaluation appends one "
                "(epoch, values) record and sets last; len / epochs / names / per-name arrays / get_value (default most recent) / clear_history agree with that layout; CSV header == row keys; the saver names files by the "
                "epoch ('initial'), passes (nn_state, epoch) to a callable metadata, saves dict metadata as is and None as {}.",
        "design_ref": "DESIGN.md section 4 C17",
        "note": TB + "Not decided: file contents. Metric functions, msg_gen and logger_fn are opaque user callables.",
    },
    "C18": {
        "technique": "static analysis: integer linear forms of the lookback index and the history gate with path facts, term normal forms of the three criteria, path partitioning of the constructor refusals; necessary-condition rules imported from C17.R2",
        "text": "All lookback reads use index -p-1 and happen only on paths where len(evaluator) > p and epoch % period == 0; the relative / absolute / variance criteria are |(M_look - M_cur)/M_look|, |M_look - M_cur|, "
                "|M_look - M_cur|/sqrt(V_look); the comparison is strict `<`; success sets stop_training = True and last_epoch = epoch; variance + MetricEvaluator, unknown criteria and non-evaluators are refused; "
                "the deprecated class selects the variance criterion.",
        "design_ref": "DESIGN.md section 4 C18",
        "note": TB + "Relies on C17.R2 (one record per evaluation). The monitored values are opaque.",
    },
    "C19": {
        "technique": "static analysis: order-polarity domain (ascending/descending significance along the site axis) over the index terms, guard-before-allocation path check, literal/binding checks of the loaders; history independence by a three-call abstract interpretation (parameters replaced, inputs overwritten in place) compared under symbol renaming and order independence of the enumeration; explicit-device call form, polarity of shift-and-mask bit extraction, rank of every loadtxt result",
        "text": "generate_hilbert_space, subspace_vector and _convert_basis_element_to_index are all big-endian (site 0 = most significant bit; rows in ascending integer order; weights 2^(n-1)..2^0); oversized spaces are "
                "refused by `size > max_size` before any allocation; loaders read samples/targets as float32 and bases as str, map target columns 0/1 to real/imaginary, return [samples, target, bases, all bases] in order, "
                "load_data_DM refuses a single matrix file; extract_refbasis_samples keeps samples[all(bases == 'Z', dim=1)].",
        "design_ref": "DESIGN.md section 4 C19",
        "note": TB + "Not decided: np.loadtxt parsing.",
    },
    "C20": {
        "technique": "static analysis: attribute resolution along MRO / nn.Module API table (definite AttributeError = violation), storage-identity (alias) analysis of the two networks, constructor binding by abstract interpretation, zero-segment analysis of the phase gradient; values after reinitialisation (no dependence on previous parameters)",
        "text": "With module= every state type is constructible, uses the given module as amplitude network with its sizes and (where present) a separate phase network with independent parameter storage of the same shapes; "
                "from sizes the RBM constructors receive (num_visible, num_hidden[, num_aux]) under those names, weights are randn/sqrt(nv) and biases zero; reinitialisation redraws every network with unchanged shapes; complex "
                "and mixed fit refuse a missing input_bases before anything happens; every producer of the phase network's gradient has a structurally zero auxiliary-bias segment.",
        "design_ref": "DESIGN.md section 4 C20",
        "note": TB + "Not decided: optimizers that move parameters with zero gradient (weight decay acts on the value, which is zero).",
    },
})

NOT_APPLICABLE = {}

ENGINES = [
    {"name": "qsa", "path": "/verif/qsa", "serves_properties": sorted(CHECKS),
     "kind_free_text": "repository-specific static analyser (pure stdlib): program model with MRO/property/decorator resolution, statement CFG with dominators, "
                       "abstract interpreter with kind/shape/alias-effect/term facets and context-sensitive inlining, exchange parity, protocol automata, integer bounds"},
]

ENGINES[0]["serves_properties"] = sorted(CHECKS)

NOTES = ("Static-analysis family only: every verdict is computed from the source text of /repo/qucumber as it is on disk when the check starts; the library is never imported or executed. "
         "Exit 0 = all obligations discharged; exit 1 + VIOLATION line = a definite structural discrepancy; exit 2 = UNDECIDED / analysis error (never a silent pass). See DESIGN.md.")
