"""Per-property claim texts for MANIFEST.json (source of truth; run tools/gen_manifest.py)."""

TB = ("Trusted base: CPython's ast; the op tables of qsa (kind/shape/alias/term semantics of ~150 torch, numpy and builtin "
      "operations); torch.nn.Module / torch.optim semantics; mathematical facts hard-wired in the rule; Sphinx-free receiver typing "
      "by abstract interpretation of the constructors. ")

CHECKS = {
    "C01": {
        "technique": "static analysis: abstract interpretation over a hash-consed term domain (normal forms of the defining formulas), symbolic shapes, exact dependence sets",
        "text": "Decides, for every parameter value at once, the structural clauses of the Born rule: amplitude^2 == unnormalised probability == exp(-E_lambda) as "
                "identities of normal forms between sibling methods; psi == A(cos phi, sin phi); complex phase == -E_mu/2; positive state real with zero phase; energy == "
                "-v.b - sum softplus(Wv+c); partition == sum exp(-E); exact dependence sets; vector and batched call forms (shapes). A static rule reasons about the code once; tests only sample zero-bias models.",
        "design_ref": "DESIGN.md section 4 C01",
        "note": TB + "Not decided: floating-point agreement, overflow of exp, numeric unit norm. softplus(x)=log sum_h exp(hx) is the trusted identity linking the energy to the hidden-unit marginal.",
    },
    "C02": {
        "technique": "static analysis: term normal forms + exchange-parity proof (Hermiticity), symbolic shapes with distinct axis symbols (row/column convention), dependence sets",
        "text": "Proves Hermiticity of rho for all parameters by showing log|rho| symmetric and arg rho antisymmetric under exchange of the two configurations (three call forms); "
                "checks that all matrix-valued functions put v on rows and vp on columns; proves rho(s,s) == (exp(-E_am(s)), 0) == reported probability (uses 1+2e^x+e^{2x}=(1+e^x)^2); "
                "energy / partition normal forms of the purification RBM; exact dependence of rho on every bias.",
        "design_ref": "DESIGN.md section 4 C02",
        "note": TB + "Not decided: positive semidefiniteness, entry-wise equality with the partial trace of the purification off the diagonal, numeric trace.",
    },
    "C05": {
        "technique": "static analysis: term normal forms of the conditionals, loop summarisation (first + generic iteration) of the Gibbs loop, alias/effect facet for overwrite semantics",
        "text": "Decides that each conditional is sigmoid of the energy's own pre-activation with every bias, samplers are torch.bernoulli of that probability, one step samples all hidden "
                "(and auxiliary) units from the current visible state and then the visible units from those fresh draws, the loop runs exactly k times (k=0 returns the start state, k=2 is the two-fold composition), "
                "and the caller's start state is written iff overwrite=True (through sample() of all three state types).",
        "design_ref": "DESIGN.md section 4 C05",
        "note": TB + "Not decided: the empirical law / detailed balance as numbers (they follow mathematically from exact conditionals and the hidden-then-visible order).",
    },
    "C08": {
        "technique": "static analysis: effect analysis (no write reaches the caller's batch), term normal forms of the local estimators, call-record binding checks, loop summarisation",
        "text": "For SigmaX/Y/Z and NeighbourInteraction (open/periodic) on all three state types: apply never writes samples or parameters; result is real of shape (B,); the X/Y estimators "
                "sum psi(flip_i s)/psi(s) (times i(2s_i-1) for Y, taken from the unflipped sample at the same site) over all sites, divide by the denominator of the unflipped batch and by the number of sites; "
                "Z is 2*mean-1; ZZ pairs (i, i+c) with the same c; importance weight == numerator(vp,v)/denominator(v) with rho(vp,v) argument order.",
        "design_ref": "DESIGN.md section 4 C08",
        "note": TB + "Not decided: numeric equality of the exact expectation with Tr(rho O). Z sign convention is the library's documented to_pm1 map.",
    },
    "C09": {
        "technique": "static analysis: effect/alias analysis with view semantics, functional-update terms for the exchange, call-record binding checks",
        "text": "swap is a correct three-step exchange on region A for int, list and unknown-kind regions (the temporary must be a copy because x[:, int] is a view); SWAP.apply never writes the batch, "
                "passes fresh copies to swap, pairs each sample with a non-zero cyclic roll along the batch axis, weights swapped_k against original_k and returns Re(w1*w2) of shape (B,).",
        "design_ref": "DESIGN.md section 4 C09",
        "note": TB + "Not decided: that the average equals Tr rho_A^2, entropy inequalities.",
    },
    "C11": {
        "technique": "static analysis: effect analysis on the metadata argument / model, path partitioning for reserved keys, writer/reader agreement between save, load and the three autoloads",
        "text": "save writes neither its metadata argument nor the model (four metadata contexts x three state types); reserved keys are refused before torch.save; the payload holds each network's "
                "state_dict (registration order), the unitary dictionary and the metadata; load restores every network and the unitary dictionary from the given location; autoload infers each size "
                "from a stored parameter of the matching shape, passes the stored unitaries to the constructor and loads the same location.",
        "design_ref": "DESIGN.md section 4 C11",
        "note": TB + "Not decided: bit-identical round trip of torch serialisation.",
    },
    "C12": {
        "technique": "static analysis: typestate/protocol check - product of fit's CFG with the sticky stop flag compared (language inclusion both ways) with a reference automaton; effect facet locates parameter writes",
        "text": "All stop points at once: the event language of fit (flag may be set inside any of the six events) equals the documented protocol for flag-at-entry 0 and 1; parameter effects occur only "
                "between batch-start and batch-end; epoch range and event arguments; CallbackList dispatch order/arguments; LambdaCallback arities; no library code clears the flag; the setter rejects non-booleans.",
        "design_ref": "DESIGN.md section 4 C12",
        "note": TB + "Callbacks are opaque user code that may set the flag in any event; exceptions raised by callbacks and tqdm are out of scope. Counterexamples are shortest distinguishing event traces.",
    },
    "C13": {
        "technique": "static analysis: rational-function identity test of the pairwise merge, integer lower-bound reasoning with path facts (divisor != 0), loop summarisation + call records for the schedule",
        "text": "The merge routine equals the Chan pairwise update as an identity of rational functions on the generic branch and never divides by zero / uses the undefined variance of a one-element chunk; "
                "both statistics drivers draw ceil(n/chains) times, use burn_in first and steps afterwards on the same continuing chains (overwrite=True internally), touch initial_state only under overwrite, "
                "evaluate every observable on the chain state of the current draw, and report chains x draws.",
        "design_ref": "DESIGN.md section 4 C13",
        "note": TB + "Not decided: the distribution of the draws. torch.var_mean is trusted to return the unbiased variance (NaN for one value).",
    },
    "C14": {
        "technique": "static analysis: exhaustive who-may-call query over resolved names for randomness sources, must-reach check for seeding, whole-API effect analysis for parameter writes",
        "text": "Every randomness source in the package is a consumer of torch's default generator (numpy/python RNGs, explicit generators and set iteration are violations; the matcher is kept honest by an "
                "embedded positive example); set_random_seed passes the caller's seed to torch.manual_seed on every path; ~145 read-only entry contexts (states, RBMs, observables, metrics, rotations, save) "
                "have an empty parameter-effect set while the whitelisted writers are seen writing.",
        "design_ref": "DESIGN.md section 4 C14",
        "note": TB + "Not decided: 'a different seed gives different draws'; determinism of torch kernels. User callables are assumed to touch state only through the public API.",
    },
    "C15": {
        "technique": "static analysis: term normal forms of every kernel against the complex multiplication table, ordered symbolic shapes for the Kronecker layout, path partitioning for guards",
        "text": "Sign tables of scalar/elementwise/matrix/einsum/inner/outer products and conjugations, real/imag slot order of construction and conversion, x-major Kronecker layout for non-square operands, "
                "errors raised before any write for aliasing out= buffers and unsupported ranks, and inverse / division / modulus / norms as rational-function identities.",
        "design_ref": "DESIGN.md section 4 C15",
        "note": TB + "Not decided: numeric agreement for all shapes/broadcasts, float32/float64 mixing, numpy's complex exp inside cplx.sigmoid.",
    },
}

NOT_APPLICABLE = {}

ENGINES = [
    {"name": "qsa", "path": "/verif/qsa", "serves_properties": sorted(CHECKS),
     "kind_free_text": "repository-specific static analyser (pure stdlib): program model with MRO/property/decorator resolution, statement CFG with dominators, "
                       "abstract interpreter with kind/shape/alias-effect/term facets and context-sensitive inlining, exchange parity, protocol automata, integer bounds"},
]

NOTES = ("Static-analysis family only: every verdict is computed from the source text of /repo/qucumber as it is on disk when the check starts; the library is never imported or executed. "
         "Exit 0 = all obligations discharged; exit 1 + VIOLATION line = a definite structural discrepancy; exit 2 = UNDECIDED / analysis error (never a silent pass). See DESIGN.md.")
