#!/usr/bin/env python3
"""Regenerate MANIFEST.json from tools/manifest_data.py (keeps the file valid and in sync)."""
import json, os, sys
sys.path.insert(0, os.path.dirname(os.path.abspath(__file__)))
from manifest_data import CHECKS, NOT_APPLICABLE, ENGINES, NOTES

props = [json.loads(l)["id"] for l in open(os.path.join(os.path.dirname(__file__), "..", "properties.jsonl"))]
checks = []
for pid in props:
    if pid not in CHECKS:
        continue
    c = CHECKS[pid]
    checks.append({
        "property_id": pid,
        "quick_cmd": "./check %s --tier quick" % pid,
        "thorough_cmd": "./check %s --tier thorough" % pid,
        "evidence_file": "/verif/evidence/%s.json" % pid,
        "replay_cmd_template": "./check replay {path}",
        "engine": c.get("engine", "qsa"),
        "level_claimed": {"category": "other", "text": c["text"], "design_ref": c["design_ref"]},
        "level_note": c["note"],
        "technique": c["technique"],
    })
na = [{"property_id": p, "reason": NOT_APPLICABLE.get(p, "check not built yet (build in progress, see DESIGN.md section 7)")} for p in props if p not in CHECKS]
m = {
    "version": 1,
    "setup_cmd": "python3 -c \"import ast, sys; sys.path.insert(0, '/verif'); import qsa.core\"",
    "hooks": {"guard": "PIQUIL_QUCUMBER_VERIF", "enable": "none needed: the checks read /repo/qucumber source from disk; no hook is compiled into the library",
              "baseline_off_cmd": "cd /repo && /venv/bin/python -m pytest -ra -q -p no:cacheprovider --timeout=900 --continue-on-collection-errors",
              "source_commits": [], "add_only": True},
    "engines": ENGINES,
    "checks": checks,
    "notes": NOTES,
    "not_applicable": na,
}
json.dump(m, open(os.path.join(os.path.dirname(__file__), "..", "MANIFEST.json"), "w"), indent=1)
print("checks:", len(checks), "not_applicable:", len(na))
